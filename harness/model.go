package vh

import (
	"reflect"
	"sort"
	"strings"
)

// ---------------------------------------------------------------------------------------------
// declarations
// ---------------------------------------------------------------------------------------------

// OptDecl declares one option. Names carry their dashes ("-a", "--all").
type OptDecl struct {
	Names []string `json:"names"`
	Bool  bool     `json:"bool"`
	Env   bool     `json:"env,omitempty"` // backed by a set, valid environment variable
	// EnvVal: the value the variable holds ("" = the default "true"/"envv"); whitespace-only values are values too
	EnvVal string `json:"env_val,omitempty"`
	// OnlyViaOptions: the option has no name the spec lexer can spell (non-ASCII): it is reachable through OPTIONS /
	// the implicit spec only
	OnlyViaOptions bool `json:"only_via_options,omitempty"`
}

// ArgDecl declares one positional argument.
type ArgDecl struct {
	Name string `json:"name"`
}

// Decls is a declaration set (the "program" minus the spec).
type Decls struct {
	Opts []OptDecl `json:"opts"`
	Args []ArgDecl `json:"args"`
}

// Lookup returns the index of the option owning name, or -1.
func (d *Decls) Lookup(name string) int {
	for i, o := range d.Opts {
		for _, n := range o.Names {
			if n == name {
				return i
			}
		}
	}
	return -1
}

// ShortName returns the first one-letter name of o ("" if none).
func (o OptDecl) ShortName() string {
	for _, n := range o.Names {
		if len(n) == 2 {
			return n
		}
	}
	return ""
}

// DeclName is the name string passed to the library ("a all").
func (o OptDecl) DeclName() string {
	var parts []string
	for _, n := range o.Names {
		parts = append(parts, strings.TrimLeft(n, "-"))
	}
	return strings.Join(parts, " ")
}

// Key is the binding key of option i.
func (d *Decls) OptKey(i int) string { return "O" + d.Opts[i].Names[0] }

// ArgKey is the binding key of argument i.
func (d *Decls) ArgKey(i int) string { return "A" + d.Args[i].Name }

// ---------------------------------------------------------------------------------------------
// spec AST
// ---------------------------------------------------------------------------------------------

// Kind of a spec node.
type Kind int

// Node kinds.
const (
	KSeq Kind = iota
	KChoice
	KOptional
	KRep
	KOpt
	KGroup
	KArg
	KDD
)

// Node of the spec AST. The AST is the source of truth; the spec string is rendered from it.
type Node struct {
	Kind  Kind    `json:"k"`
	Kids  []*Node `json:"kids,omitempty"`
	Opt   int     `json:"opt,omitempty"`
	Group []int   `json:"group,omitempty"`
	Arg   int     `json:"arg,omitempty"`
	// rendering hints (no semantic content)
	UseName   int    `json:"use,omitempty"`
	AllOpts   bool   `json:"all,omitempty"`
	Annotated string `json:"ann,omitempty"` // "=<...>" text appended to the option
	Sep       string `json:"sep,omitempty"` // blank(s) used between the kids of a Seq / around '|'
}

func needsParenInChoice(k *Node) bool { return k.Kind == KSeq || k.Kind == KChoice }
func needsParenInRep(k *Node) bool {
	return k.Kind == KSeq || k.Kind == KChoice || k.Kind == KRep || k.Kind == KDD
}

// Render produces the spec string.
func (n *Node) Render(d *Decls) string {
	sep := n.Sep
	if sep == "" {
		sep = " "
	}
	switch n.Kind {
	case KSeq:
		var parts []string
		for _, k := range n.Kids {
			s := k.Render(d)
			if k.Kind == KSeq {
				s = "(" + s + ")"
			}
			parts = append(parts, s)
		}
		return strings.Join(parts, sep)
	case KChoice:
		var parts []string
		for _, k := range n.Kids {
			s := k.Render(d)
			if needsParenInChoice(k) {
				s = "(" + s + ")"
			}
			parts = append(parts, s)
		}
		if n.Sep == "" {
			return strings.Join(parts, " | ")
		}
		return strings.Join(parts, n.Sep)
	case KOptional:
		return "[" + n.Kids[0].Render(d) + "]"
	case KRep:
		k := n.Kids[0]
		s := k.Render(d)
		if needsParenInRep(k) {
			s = "(" + s + ")"
		}
		return s + "..."
	case KOpt:
		names := d.Opts[n.Opt].Names
		return names[n.UseName%len(names)] + n.Annotated
	case KGroup:
		if n.AllOpts {
			return "OPTIONS"
		}
		s := "-"
		for _, o := range n.Group {
			s += d.Opts[o].ShortName()[1:]
		}
		return s
	case KArg:
		return d.Args[n.Arg].Name
	case KDD:
		return "--"
	}
	panic("kind")
}

// Walk visits every node.
func (n *Node) Walk(f func(*Node)) {
	f(n)
	for _, k := range n.Kids {
		k.Walk(f)
	}
}

// Nullable reports whether the node can match without consuming (environment aside).
func Nullable(n *Node) bool {
	switch n.Kind {
	case KSeq:
		for _, k := range n.Kids {
			if !Nullable(k) {
				return false
			}
		}
		return true
	case KChoice:
		for _, k := range n.Kids {
			if Nullable(k) {
				return true
			}
		}
		return false
	case KOptional, KDD:
		return true
	case KRep:
		return Nullable(n.Kids[0])
	}
	return false
}

// HasKind reports whether the tree contains a node of kind k.
func (n *Node) HasKind(k Kind) bool {
	found := false
	n.Walk(func(x *Node) {
		if x.Kind == k {
			found = true
		}
	})
	return found
}

// Operators counts the operator nodes.
func (n *Node) Operators() int {
	c := 0
	n.Walk(func(x *Node) {
		switch x.Kind {
		case KChoice, KOptional, KRep:
			c++
		case KSeq:
			if len(x.Kids) > 1 {
				c++
			}
		}
	})
	return c
}

// ---------------------------------------------------------------------------------------------
// reference semantics (DESIGN.md section 3)
// ---------------------------------------------------------------------------------------------

// Quirks reproduce recorded (not repaired) findings and compute the unclaimed classes.
type Quirks struct {
	GreedyGroup   bool // F3: option groups take every adjacent member occurrence, no alternative offered
	GroupEnvAlone bool // relaxation for 3.4(d): a group is satisfied by an env-backed member alone
	KeepTainted   bool // keep derivations of 3.4(c)
}

// Occ is one option occurrence found in the leading option run.
type Occ struct {
	Opt    int
	Val    string
	Tok    int  // token index
	Letter int  // index of the letter inside a short-form token, -1 when the occurrence is the whole token
	NToks  int  // 1 or 2 (separate value)
	Valued bool // short form: the letter is a valued option (it owns the rest of the token)
}

// FindOcc scans the leading option run on behalf of option want and returns its first occurrence.
func FindOcc(d *Decls, toks []string, want int) (Occ, bool) {
	i := 0
	for i < len(toks) {
		t := toks[i]
		switch {
		case t == "--" || t == "-":
			return Occ{}, false
		case strings.HasPrefix(t, "--"):
			name, val := t, ""
			eq := strings.Index(t, "=")
			if eq >= 0 {
				name, val = t[:eq], t[eq+1:]
			}
			o := d.Lookup(name)
			if o < 0 {
				return Occ{}, false
			}
			switch {
			case eq >= 0:
				if o != want {
					i++
					continue
				}
				if val == "" {
					return Occ{}, false
				}
				return Occ{o, val, i, -1, 1, false}, true
			case d.Opts[o].Bool:
				if o != want {
					i++
					continue
				}
				return Occ{o, "true", i, -1, 1, false}, true
			default:
				if i+1 >= len(toks) {
					return Occ{}, false
				}
				if o != want {
					i += 2
					continue
				}
				if strings.HasPrefix(toks[i+1], "-") {
					return Occ{}, false
				}
				return Occ{o, toks[i+1], i, -1, 2, false}, true
			}
		case strings.HasPrefix(t, "-"):
			if len(t) >= 3 && t[2] == '=' {
				o := d.Lookup(t[:2])
				if o != want || o < 0 {
					i++
					continue
				}
				if t[3:] == "" {
					return Occ{}, false
				}
				return Occ{o, t[3:], i, -1, 1, false}, true
			}
			adv := 1
		letters:
			for j := 1; j < len(t); j++ {
				o := d.Lookup("-" + t[j:j+1])
				if o < 0 {
					return Occ{}, false
				}
				if d.Opts[o].Bool {
					if o == want {
						return Occ{o, "true", i, j, 1, false}, true
					}
					continue
				}
				rest := t[j+1:]
				if rest != "" {
					if o == want {
						return Occ{o, rest, i, j, 1, true}, true
					}
					break letters
				}
				if i+1 >= len(toks) {
					return Occ{}, false
				}
				if o != want {
					adv = 2
					break letters
				}
				if strings.HasPrefix(toks[i+1], "-") {
					return Occ{}, false
				}
				return Occ{o, toks[i+1], i, j, 2, true}, true
			}
			i += adv
		default:
			return Occ{}, false
		}
	}
	return Occ{}, false
}

// RemoveOcc returns toks without the given occurrence.
func RemoveOcc(toks []string, oc Occ) []string {
	out := make([]string, 0, len(toks))
	out = append(out, toks[:oc.Tok]...)
	if oc.Letter >= 0 {
		t := toks[oc.Tok]
		var nt string
		if oc.Valued {
			nt = t[:oc.Letter]
		} else {
			nt = t[:oc.Letter] + t[oc.Letter+1:]
		}
		if nt != "-" {
			out = append(out, nt)
		}
	}
	out = append(out, toks[oc.Tok+oc.NToks:]...)
	return out
}

type config struct {
	toks    string // tokens joined by \x00 behind a \x01 marker; "" = none
	ended   bool
	touched bool // an option occurrence was extracted since the last positional / start
	tainted bool
	loose   bool   // a spec-level -- fired while the head token was dash-prefixed (superset of tainted)
	bind    string // recorded bindings (Track)
}

func joinT(t []string) string {
	if len(t) == 0 {
		return ""
	}
	return "\x01" + strings.Join(t, "\x00")
}

func splitT(s string) []string {
	if s == "" {
		return nil
	}
	return strings.Split(s[1:], "\x00")
}

// Ref is one run of the reference semantics.
type Ref struct {
	D *Decls
	Q Quirks
	// Track records bindings along derivations.
	Track bool
	// Expect restricts derivations to those binding exactly these values (verification mode; implies Track).
	Expect map[string][]string
	// observations for the non-triviality rule
	MaxLive int     // largest set of live configurations seen at any step
	Work    float64 // estimate of the number of derivation prefixes a backtracking search explores
	// Budget bounds the number of configurations the model itself may process (0 = DefaultBudget); once it is
	// exhausted Exceeded is set, the verdict is meaningless and the caller must set the case aside.
	Budget   int
	Exceeded bool
	// TaintedAccept: some derivation consuming the whole argv is tainted (3.4c), whether or not it is kept
	TaintedAccept bool
	// TrackLoose makes the run distinguish derivations in which a spec-level -- fired in front of a dash-prefixed
	// token at all; LooseAccept reports that such a derivation consumes the whole argv.
	TrackLoose  bool
	LooseAccept bool
	steps       int
	Skips       int // occurrences extracted from behind another token of the run
}

// cset maps each live configuration to the number of derivation prefixes reaching it (saturating);
// the count only feeds the backtracking-cost estimate (Work), never a verdict.
type cset map[config]float64

func (s cset) add(c config, n float64) {
	v := s[c] + n
	if v > 1e30 {
		v = 1e30
	}
	s[c] = v
}

func (r *Ref) norm(c config) config {
	if c.ended {
		return c
	}
	t := splitT(c.toks)
	if len(t) > 0 && t[0] == "--" {
		c.toks = joinT(t[1:])
		c.ended = true
	}
	return c
}

func addBind(b string, key string, val string) string {
	m := CanonBind(b)
	m[key] = append(m[key], val)
	keys := make([]string, 0, len(m))
	for k := range m {
		keys = append(keys, k)
	}
	sort.Strings(keys)
	var sb strings.Builder
	for _, k := range keys {
		for _, v := range m[k] {
			sb.WriteString(k + "\x03" + v + "\x02")
		}
	}
	return sb.String()
}

// CanonBind turns a derivation signature into per-container value lists.
func CanonBind(sig string) map[string][]string {
	m := map[string][]string{}
	for _, kv := range strings.Split(sig, "\x02") {
		if kv == "" {
			continue
		}
		i := strings.Index(kv, "\x03")
		m[kv[:i]] = append(m[kv[:i]], kv[i+1:])
	}
	return m
}

func (r *Ref) expectOK(b string, key string, val string) bool {
	if r.Expect == nil {
		return true
	}
	n := len(CanonBind(b)[key])
	e := r.Expect[key]
	return n < len(e) && e[n] == val
}

func (r *Ref) seen(s cset) {
	if len(s) > r.MaxLive {
		r.MaxLive = len(s)
	}
}

func (r *Ref) work(n float64) {
	r.Work += n
	if r.Work > 1e30 {
		r.Work = 1e30
	}
}

// DefaultBudget is the model's own size bound.
const DefaultBudget = 60000

func (r *Ref) spend(n int) bool {
	r.steps += n
	b := r.Budget
	if b == 0 {
		b = DefaultBudget
	}
	if r.steps > b {
		r.Exceeded = true
	}
	return r.Exceeded
}

func (r *Ref) match(n *Node, in cset) cset {
	out := cset{}
	if r.spend(len(in)) {
		return out
	}
	switch n.Kind {
	case KSeq:
		cur := in
		for _, k := range n.Kids {
			cur = r.match(k, cur)
			if len(cur) == 0 {
				break
			}
		}
		return cur
	case KChoice:
		for _, k := range n.Kids {
			for c, m := range r.match(k, in) {
				out.add(c, m)
			}
		}
		r.seen(out)
		return out
	case KOptional:
		for c, m := range in {
			out.add(c, m)
		}
		for c, m := range r.match(n.Kids[0], in) {
			out.add(c, m)
		}
		r.seen(out)
		return out
	case KRep:
		cur := r.match(n.Kids[0], in)
		for len(cur) > 0 {
			next := cset{}
			for c, m := range cur {
				if _, seen := out[c]; !seen {
					next[c] = m
				}
				out.add(c, m)
			}
			if len(next) == 0 {
				break
			}
			cur = r.match(n.Kids[0], next)
		}
		r.seen(out)
		return out
	case KArg:
		for c0, m := range in {
			r.work(m)
			c := r.norm(c0)
			t := splitT(c.toks)
			if len(t) == 0 {
				continue
			}
			if !c.ended && strings.HasPrefix(t[0], "-") && t[0] != "-" {
				continue
			}
			nc := c
			nc.toks = joinT(t[1:])
			nc.touched = false
			if r.Track {
				key := r.D.ArgKey(n.Arg)
				if !r.expectOK(c.bind, key, t[0]) {
					continue
				}
				nc.bind = addBind(c.bind, key, t[0])
			}
			out.add(nc, m)
		}
		return out
	case KDD:
		for c0, m := range in {
			r.work(m)
			c := r.norm(c0)
			t := splitT(c.toks)
			if !c.ended && len(t) > 0 && strings.HasPrefix(t[0], "-") && t[0] != "-" {
				if c.touched {
					c.tainted = true
				}
				if r.TrackLoose {
					c.loose = true
				}
			}
			c.ended = true
			out.add(c, m)
		}
		return out
	case KOpt:
		for c0, m := range in {
			r.work(m)
			c := r.norm(c0)
			if nc, ok := r.takeOpt(c, n.Opt); ok {
				out.add(nc, m)
			} else if r.D.Opts[n.Opt].Env {
				out.add(c, m)
			}
		}
		return out
	case KGroup:
		for c0, m := range in {
			r.work(m)
			c := r.norm(c0)
			for nc := range r.group(c, n.Group) {
				out.add(nc, m)
			}
		}
		r.seen(out)
		return out
	}
	panic("kind")
}

func (r *Ref) takeOpt(c config, o int) (config, bool) {
	if c.ended {
		return c, false
	}
	t := splitT(c.toks)
	oc, found := FindOcc(r.D, t, o)
	if !found {
		return c, false
	}
	nc := c
	nc.toks = joinT(RemoveOcc(t, oc))
	nc.touched = true
	if r.Track {
		key := r.D.OptKey(o)
		if !r.expectOK(c.bind, key, oc.Val) {
			return c, false
		}
		nc.bind = addBind(c.bind, key, oc.Val)
	}
	if oc.Tok > 0 || oc.Letter > 1 {
		r.Skips++
	}
	return nc, true
}

func (r *Ref) groupEnvAlone(c config, members []int) bool {
	// the relaxation is deliberately broader than what the library does today (it lets the environment satisfy a group
	// only while tokens remain and options have not ended): the property leaves every such verdict unclaimed
	if !r.Q.GroupEnvAlone {
		return false
	}
	for _, o := range members {
		if r.D.Opts[o].Env {
			return true
		}
	}
	return false
}

// group: one or more member occurrences, any order (ideal), or all of them (greedy quirk).
func (r *Ref) group(c config, members []int) cset {
	out := cset{}
	if r.Q.GreedyGroup {
		cur := c
		n := 0
		for {
			progressed := false
			for _, o := range members {
				if nc, ok := r.takeOpt(cur, o); ok {
					cur = nc
					n++
					progressed = true
					break
				}
			}
			if !progressed {
				break
			}
		}
		if n > 0 {
			out[cur] = 1
		} else if r.groupEnvAlone(c, members) {
			out[c] = 1
		}
		return out
	}
	frontier := cset{c: 1}
	for len(frontier) > 0 {
		if r.spend(len(frontier)) {
			return out
		}
		next := cset{}
		for f := range frontier {
			for _, o := range members {
				if nc, ok := r.takeOpt(f, o); ok {
					if _, s := out[nc]; !s {
						out[nc] = 1
						next[nc] = 1
					}
				}
			}
		}
		frontier = next
	}
	if r.groupEnvAlone(c, members) {
		out[c] = 1
	}
	return out
}

// Verdict of a reference run.
type Verdict struct {
	Exceeded bool // the model's own budget ran out: no verdict
	Accept   bool
	Bindings []string // sorted distinct binding signatures of accepting derivations (Track only)
}

// Run decides whether argv is a sentence of spec.
func (r *Ref) Run(spec *Node, argv []string) Verdict {
	start := cset{config{toks: joinT(argv)}: 1}
	end := r.match(spec, start)
	var v Verdict
	if r.Exceeded {
		v.Exceeded = true
		return v
	}
	seen := map[string]bool{}
	for c0 := range end {
		c := r.norm(c0)
		if c.toks != "" {
			continue
		}
		if c.loose {
			r.LooseAccept = true
		}
		if c.tainted {
			r.TaintedAccept = true
			if !r.Q.KeepTainted {
				continue
			}
		}
		if r.Expect != nil && !reflect.DeepEqual(CanonBind(c.bind), normBind(r.Expect)) {
			continue
		}
		v.Accept = true
		if r.Track && !seen[c.bind] {
			seen[c.bind] = true
			v.Bindings = append(v.Bindings, c.bind)
		}
	}
	sort.Strings(v.Bindings)
	return v
}

func normBind(m map[string][]string) map[string][]string {
	out := map[string][]string{}
	for k, v := range m {
		if len(v) > 0 {
			out[k] = v
		}
	}
	return out
}

// Accepts is the C01 oracle.
func Accepts(d *Decls, spec *Node, argv []string, q Quirks) bool {
	return (&Ref{D: d, Q: q}).Run(spec, argv).Accept
}

// Verifies is the C02 oracle: the observed bindings are those of some valid derivation.
func Verifies(d *Decls, spec *Node, argv []string, bind map[string][]string, q Quirks) bool {
	return (&Ref{D: d, Q: q, Track: true, Expect: normBind(bind)}).Run(spec, argv).Accept
}

// HasHelpToken reports whether argv holds -h/--help before the first "--".
func HasHelpToken(argv []string) bool {
	for _, a := range argv {
		if a == "--" {
			return false
		}
		if a == "-h" || a == "--help" {
			return true
		}
	}
	return false
}

// HasDashResidue reports the unclaimed shape "-f-..." before the first "--": a short-form token in which a '-'
// follows declared flag letters only. Removing the flags leaves "--..." which the library then reads as the
// end-of-options marker or as a long option; neither reading is claimed.
func HasDashResidue(d *Decls, argv []string) bool {
	for _, a := range argv {
		if a == "--" {
			return false
		}
		if len(a) < 3 || a[0] != '-' || a[1] == '-' || a[2] == '=' {
			continue
		}
		for j := 1; j < len(a); j++ {
			if a[j] == '-' {
				return true
			}
			o := d.Lookup("-" + a[j:j+1])
			if o < 0 || !d.Opts[o].Bool {
				break
			}
		}
	}
	return false
}

// HasFoldEq reports the unclaimed "-ab=v" shape before the first "--": a short-form token in which a
// declared letter that follows at least one flag letter is directly followed by '='.
func HasFoldEq(d *Decls, argv []string) bool {
	for _, a := range argv {
		if a == "--" {
			return false
		}
		if len(a) < 4 || a[0] != '-' || a[1] == '-' || a[2] == '=' {
			continue
		}
		for j := 1; j < len(a); j++ {
			o := d.Lookup("-" + a[j:j+1])
			if o < 0 {
				break
			}
			if j >= 2 && j+1 < len(a) && a[j+1] == '=' {
				return true
			}
			if !d.Opts[o].Bool {
				break
			}
		}
	}
	return false
}
