package vh

import (
	"encoding/json"
	"fmt"
	"reflect"
	"strings"

	"pgregory.net/rapid"
)

// ParseCase is one (program, argv) pair: the case type of C01, C02 and several metamorphic checks.
type ParseCase struct {
	Program
	Argv   []string `json:"argv"`
	Source string   `json:"source,omitempty"`
	// Builtin: valued options and arguments are the library's own []string containers (StringsOpt/StringsArg, all
	// declared with one shared default slice) instead of recorder value types
	Builtin bool `json:"builtin,omitempty"`
}

// Key identifies the case for distinctness.
func (c *ParseCase) Key() string {
	return FmtDecls(c.D) + "\x00" + c.SpecStr + "\x00" + strings.Join(c.Argv, "\x01")
}

// Brief is the sample representation written to evidence files.
func (c *ParseCase) Brief() interface{} {
	return map[string]interface{}{"decls": FmtDecls(c.D), "spec": c.SpecStr, "argv": c.Argv}
}

// GenParseCase draws a complete case.
func GenParseCase(t *rapid.T, cfg GenCfg) *ParseCase {
	p := GenProgram(t, cfg)
	argv, src := GenArgv(t, p.D, p.AST, cfg)
	return &ParseCase{Program: p, Argv: argv, Source: src}
}

// WorkBound is the largest backtracking estimate handed to the real library: beyond it an
// ambiguous spec makes the (designed, exponential) search slow and a deadline would mean nothing.
const WorkBound = 1e5

// Classification of a case by the reference semantics.
type Classified struct {
	Unclaimed string // "" = claimed
	Accept    bool   // ideal verdict (claimed cases)
	Greedy    bool   // verdict with the F3 quirk
	MaxLive   int
	Skips     int
	Work      float64
}

// Classify runs the reference semantics and the unclaimed-class rules of DESIGN.md 3.4.
func Classify(d *Decls, ast *Node, argv []string) Classified {
	var cl Classified
	if HasHelpToken(argv) {
		cl.Unclaimed = "help-token"
		return cl
	}
	if HasFoldEq(d, argv) {
		cl.Unclaimed = "fold-eq"
		return cl
	}
	if HasDashResidue(d, argv) {
		cl.Unclaimed = "dash-residue"
		return cl
	}
	ideal := &Ref{D: d}
	v := ideal.Run(ast, argv)
	cl.Accept, cl.MaxLive, cl.Skips, cl.Work = v.Accept, ideal.MaxLive, ideal.Skips, ideal.Work
	if v.Exceeded {
		cl.Unclaimed = "model-bound"
		return cl
	}
	if cl.Work > WorkBound {
		cl.Unclaimed = "ambiguity-bound"
		return cl
	}
	hasDD, envGroup := ast.HasKind(KDD), hasEnvGroup(d, ast)
	if hasDD {
		if (&Ref{D: d, Q: Quirks{KeepTainted: true}}).Run(ast, argv).Accept != v.Accept {
			cl.Unclaimed = "tainted"
			return cl
		}
	}
	if envGroup {
		if (&Ref{D: d, Q: Quirks{GroupEnvAlone: true}}).Run(ast, argv).Accept != v.Accept {
			cl.Unclaimed = "group-env"
			return cl
		}
	}
	if hasDD && envGroup {
		if (&Ref{D: d, Q: Quirks{GroupEnvAlone: true, KeepTainted: true}}).Run(ast, argv).Accept != v.Accept {
			cl.Unclaimed = "group-env+tainted"
			return cl
		}
	}
	cl.Greedy = v.Accept
	if ast.HasKind(KGroup) {
		cl.Greedy = (&Ref{D: d, Q: Quirks{GreedyGroup: true}}).Run(ast, argv).Accept
		if cl.Greedy != v.Accept && hasEnvGroup(d, ast) {
			// the greedy matcher combined with an env-satisfiable group: attribute only when the relaxed greedy run agrees
			if (&Ref{D: d, Q: Quirks{GreedyGroup: true, GroupEnvAlone: true}}).Run(ast, argv).Accept != cl.Greedy {
				cl.Unclaimed = "group-env"
			}
		}
	}
	return cl
}

func hasEnvGroup(d *Decls, ast *Node) bool {
	found := false
	ast.Walk(func(n *Node) {
		if n.Kind == KGroup {
			for _, o := range n.Group {
				if d.Opts[o].Env {
					found = true
				}
			}
		}
	})
	return found
}

// F3Class is the class name of the recorded greedy-group finding.
const F3Class = "F3-greedy-group"

// CheckAccept is the C01 oracle on one case. It returns the real outcome for reuse.
func CheckAccept(prop string, c *ParseCase, st *Stats) (*Violation, *Outcome, Classified) {
	st.Eval()
	cl := Classify(c.D, c.AST, c.Argv)
	if cl.Unclaimed != "" {
		st.Class("unclaimed:" + cl.Unclaimed)
		return nil, nil, cl
	}
	Begin(prop, "parse", c)
	var out Outcome
	if c.Builtin {
		out = RunRealBuiltin(c.D, c.SpecStr, c.Argv)
	} else {
		out = RunReal(c.D, c.SpecStr, c.Argv)
	}
	End()
	if out.Panic != "" {
		return Violf("Run panicked (%s) on spec %q argv %q [%s]", out.Panic, c.SpecStr, c.Argv, FmtDecls(c.D)), &out, cl
	}
	if out.Exit != nil {
		return Violf("exit(%d) under ContinueOnError on spec %q argv %q", *out.Exit, c.SpecStr, c.Argv), &out, cl
	}
	if out.Accept != cl.Accept {
		if out.Accept == cl.Greedy && KnownClassAny(F3Class) {
			st.Class("known:" + F3Class)
			return nil, nil, cl
		}
		return Violf("acceptance differs: library accept=%v (err=%q), reference accept=%v; spec %q argv %q [%s]",
			out.Accept, out.Err, cl.Accept, c.SpecStr, c.Argv, FmtDecls(c.D)), &out, cl
	}
	if out.Accept == out.HasErr {
		return Violf("Run returned err=%q but Action ran=%v; spec %q argv %q", out.Err, out.Accept, c.SpecStr, c.Argv), &out, cl
	}
	if out.Accept {
		st.Class("verdict:accept")
	} else {
		st.Class("verdict:reject")
	}
	return nil, &out, cl
}

// CheckC01 evaluates one case for C01 and books its classes.
func CheckC01(c *ParseCase, st *Stats) *Violation {
	v, out, cl := CheckAccept("C01", c, st)
	if v != nil || out == nil {
		return v
	}
	bookShapeClasses(c, st)
	if c.AST.Operators() >= 2 && (cl.MaxLive >= 2 || cl.Skips > 0) {
		st.NonTrivial(c.Key(), c.Brief)
	}
	return nil
}

func bookShapeClasses(c *ParseCase, st *Stats) {
	st.Class("source:" + c.Source)
	if c.AST.HasKind(KDD) {
		st.Class("spec:has-dd")
	}
	if c.AST.HasKind(KGroup) {
		st.Class("spec:has-group")
	}
	env := false
	for _, o := range c.D.Opts {
		env = env || o.Env
	}
	if env {
		st.Class("decls:env-backed")
	}
	if nestRepChoiceOpt(c.AST, 0) {
		st.Class("spec:rep-choice-optional-nest")
	}
	folded := false
	for _, a := range c.Argv {
		if len(a) > 2 && a[0] == '-' && a[1] != '-' && a[2] != '=' {
			folded = true
		}
	}
	if folded {
		st.Class("argv:folded-token")
	}
	switch n := len(c.Argv); {
	case n == 0:
		st.Class("argv:len0")
	case n <= 3:
		st.Class("argv:len1-3")
	case n <= 8:
		st.Class("argv:len4-8")
	default:
		st.Class("argv:len9+")
	}
}

// nestRepChoiceOpt: some path from the root crosses at least two different operator kinds among Rep/Choice/Optional.
func nestRepChoiceOpt(n *Node, mask int) bool {
	switch n.Kind {
	case KRep:
		mask |= 1
	case KChoice:
		mask |= 2
	case KOptional:
		mask |= 4
	}
	if mask == 7 {
		return true
	}
	for _, k := range n.Kids {
		if nestRepChoiceOpt(k, mask) {
			return true
		}
	}
	return false
}

// CheckC02 evaluates one case for C02 (bindings are those of one valid derivation).
func CheckC02(c *ParseCase, st *Stats) *Violation {
	v, out, cl := CheckAccept("C02", c, st)
	if v != nil {
		// acceptance disagreements belong to C01; C02 only speaks about accepted command lines
		st.Class("deferred-to-C01")
		return nil
	}
	if out == nil || !out.Accept {
		return nil
	}
	// containers the command line did not touch must still hold their declaration-time content
	for i, o := range c.D.Opts {
		key := c.D.OptKey(i)
		if _, set := out.Bind[key]; set {
			continue
		}
		want := []string(nil)
		if o.Env {
			// every container of these cases has Clear(): its environment value is read as a list whose items are trimmed
			want = []string{strings.TrimSpace(EnvValue(o))}
		} else if c.Builtin && !o.Bool {
			want = []string{"dflt"}
		}
		if !reflect.DeepEqual(out.Raw[key], want) && !(len(out.Raw[key]) == 0 && len(want) == 0) {
			return Violf("option %s was not given on the command line but holds %q (declaration-time content %q); spec %q argv %q",
				key, out.Raw[key], want, c.SpecStr, c.Argv)
		}
	}
	for i := range c.D.Args {
		key := c.D.ArgKey(i)
		if _, set := out.Bind[key]; !set {
			if c.Builtin {
				if !reflect.DeepEqual(out.Raw[key], []string{"dflt"}) {
					return Violf("argument %s not bound by the command line but holds %q instead of its declared default [dflt]; spec %q argv %q", key, out.Raw[key], c.SpecStr, c.Argv)
				}
			} else if len(out.Raw[key]) != 0 {
				return Violf("argument %s not bound by the command line but holds %q; spec %q argv %q", key, out.Raw[key], c.SpecStr, c.Argv)
			}
		}
	}
	ok := Verifies(c.D, c.AST, c.Argv, out.Bind, Quirks{})
	if !ok {
		if c.AST.HasKind(KDD) && Verifies(c.D, c.AST, c.Argv, out.Bind, Quirks{KeepTainted: true}) {
			st.Class("unclaimed:tainted-binding")
			return nil
		}
		if hasEnvGroup(c.D, c.AST) && Verifies(c.D, c.AST, c.Argv, out.Bind, Quirks{GroupEnvAlone: true, KeepTainted: true}) {
			st.Class("unclaimed:group-env-binding")
			return nil
		}
		if c.Builtin && Verifies(c.D, c.AST, c.Argv, out.FlagBind, Quirks{GroupEnvAlone: true, KeepTainted: true}) {
			// a command-line value equal to the declared content of one of the library's own containers: "written to" cannot
			// be inferred from the content there, the SetByUser flags are consulted instead
			st.Class("binding:read-through-flags")
			return nil
		}
		return Violf("bound values %s are not those of any valid derivation; spec %q argv %q [%s]",
			fmtBind(out.Bind), c.SpecStr, c.Argv, FmtDecls(c.D))
	}
	bookShapeClasses(c, st)
	if c.Builtin {
		st.Class("containers:builtin-strings-sharing-one-default")
	}
	// non-trivial: the accepting path needed a real choice (several live configurations) or surgery on a folded token
	if cl.MaxLive >= 2 || cl.Skips > 0 {
		st.NonTrivial(c.Key(), func() interface{} {
			m := c.Brief().(map[string]interface{})
			m["bound"] = out.Bind
			return m
		})
	}
	return nil
}

// CheckC15Parse (C15 on arbitrary, possibly ambiguous specs): SetByUser is true exactly for the containers that received
// a value from the command line on the accepting path - not for containers merely tried on an abandoned branch.
func CheckC15Parse(c *ParseCase, st *Stats) *Violation {
	v, out, _ := CheckAccept("C15", c, st)
	if v != nil {
		st.Class("deferred-to-C01")
		return nil
	}
	if out == nil || !out.Accept {
		return nil
	}
	for key, vals := range out.FlagBind {
		if len(vals) == 0 {
			return Violf("SetByUser of %s is true although the command line supplied no value for it (it holds nothing); spec %q argv %q [%s]", key, c.SpecStr, c.Argv, FmtDecls(c.D))
		}
	}
	if !Verifies(c.D, c.AST, c.Argv, out.FlagBind, Quirks{KeepTainted: true, GroupEnvAlone: true}) {
		// which values went where is C02's business; here only: did a container receive values without being flagged?
		withUnflagged := map[string][]string{}
		for k, v := range out.FlagBind {
			withUnflagged[k] = v
		}
		extra := ""
		for i, o := range c.D.Opts {
			key := c.D.OptKey(i)
			if _, set := out.FlagBind[key]; set {
				continue
			}
			decl := []string(nil)
			if o.Env {
				decl = []string{strings.TrimSpace(EnvValue(o))}
			}
			if raw := out.Raw[key]; len(raw) > 0 && !reflect.DeepEqual(raw, decl) {
				withUnflagged[key] = raw
				extra = key
			}
		}
		for i := range c.D.Args {
			key := c.D.ArgKey(i)
			if _, set := out.FlagBind[key]; !set && len(out.Raw[key]) > 0 {
				withUnflagged[key] = out.Raw[key]
				extra = key
			}
		}
		if extra != "" && Verifies(c.D, c.AST, c.Argv, withUnflagged, Quirks{KeepTainted: true, GroupEnvAlone: true}) {
			return Violf("%s received %q from the command line but its SetByUser flag is false; spec %q argv %q [%s]", extra, withUnflagged[extra], c.SpecStr, c.Argv, FmtDecls(c.D))
		}
		st.Class("deferred-to-C02")
		return nil
	}
	st.Class("verdict:accepted-and-flags-consistent")
	nset, nunset := 0, 0
	for i := range c.D.Args {
		if _, set := out.Bind[c.D.ArgKey(i)]; set {
			nset++
		} else {
			nunset++
		}
	}
	if nset > 0 && nunset > 0 && c.AST.Operators() >= 1 {
		st.Class("args:some-bound-some-not")
		st.NonTrivial(c.Key(), c.Brief)
	}
	return nil
}

// CheckC09Parse: verdict and bindings of specs holding several spec-level "--", judged by the reference semantics.
func CheckC09Parse(c *ParseCase, st *Stats) *Violation {
	v, out, _ := CheckAccept("C09", c, st)
	if v != nil {
		return v
	}
	if out == nil {
		return nil
	}
	st.Class("doubledd:claimed")
	if !out.Accept {
		return nil
	}
	if !Verifies(c.D, c.AST, c.Argv, out.Bind, Quirks{}) {
		if Verifies(c.D, c.AST, c.Argv, out.Bind, Quirks{KeepTainted: true, GroupEnvAlone: true}) {
			st.Class("unclaimed:tainted-binding")
			return nil
		}
		return Violf("bound values %s are not those of any valid derivation (a spec-level -- lets the tokens behind it through verbatim); spec %q argv %q [%s]",
			fmtBind(out.Bind), c.SpecStr, c.Argv, FmtDecls(c.D))
	}
	dashData := false
	for _, vals := range out.Bind {
		for _, x := range vals {
			if strings.HasPrefix(x, "-") && x != "-" {
				dashData = true
			}
		}
	}
	if dashData {
		st.Class("doubledd:dash-token-bound-as-data")
		st.NonTrivial("dd2\x00"+c.Key(), c.Brief)
	}
	return nil
}

func fmtBind(m map[string][]string) string {
	b, _ := json.Marshal(m)
	return string(b)
}

// ReplayFn re-runs a saved case.
type ReplayFn func(raw json.RawMessage) *Violation

var replayFns = map[string]ReplayFn{}

// RegisterReplay registers the replay function of (property, kind).
func RegisterReplay(property, kind string, f ReplayFn) { replayFns[property+"/"+kind] = f }

// Replay dispatches an envelope.
func Replay(e Envelope) (*Violation, error) {
	f := replayFns[e.Property+"/"+e.Kind]
	if f == nil {
		return nil, fmt.Errorf("no replay function for %s/%s", e.Property, e.Kind)
	}
	return f(e.Case), nil
}

func init() {
	RegisterReplay("C01", "parse", func(raw json.RawMessage) *Violation {
		var c ParseCase
		if err := json.Unmarshal(raw, &c); err != nil {
			return Violf("bad replay file: %v", err)
		}
		return CheckC01(&c, StatsFor("C01.replay"))
	})
	RegisterReplay("C09", "parse", func(raw json.RawMessage) *Violation {
		var c ParseCase
		if err := json.Unmarshal(raw, &c); err != nil {
			return Violf("bad replay file: %v", err)
		}
		return CheckC09Parse(&c, StatsFor("C09.replay"))
	})
	RegisterReplay("C15", "parse", func(raw json.RawMessage) *Violation {
		var c ParseCase
		if err := json.Unmarshal(raw, &c); err != nil {
			return Violf("bad replay file: %v", err)
		}
		return CheckC15Parse(&c, StatsFor("C15.replay"))
	})
	RegisterReplay("C02", "parse", func(raw json.RawMessage) *Violation {
		var c ParseCase
		if err := json.Unmarshal(raw, &c); err != nil {
			return Violf("bad replay file: %v", err)
		}
		return CheckC02(&c, StatsFor("C02.replay"))
	})
}
