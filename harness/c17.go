package vh

import (
	"encoding/json"
	"flag"
	"fmt"
	"os"
	"regexp"
	"strings"

	cli "github.com/jawher/mow.cli"
	"pgregory.net/rapid"
)

// HItem is one declared argument or option of a help case.
type HItem struct {
	IsArg   bool     `json:"is_arg"`
	Names   []string `json:"names"` // argument: one upper-case name; option: 1-3 names without dashes
	Desc    string   `json:"desc"`
	Envs    []string `json:"envs"`
	EnvVals []string `json:"env_vals"` // value each variable holds at declaration time ("" = unset)
	Typ     int      `json:"typ"`
	Default []string `json:"default"` // tokens; single-valued types: exactly one
	Hide    bool     `json:"hide"`
	// EnvSep separates the names of the environment list ("" = one blank; any white space separates names)
	EnvSep string `json:"env_sep,omitempty"`
}

// HSub is a declared subcommand.
type HSub struct {
	Aliases []string `json:"aliases"`
	Desc    string   `json:"desc"`
	Long    string   `json:"long"`
	Hidden  bool     `json:"hidden"`
}

// HelpCase is the case type of C17.
type HelpCase struct {
	Parents  []string `json:"parents"` // names of the commands above the one under test
	Desc     string   `json:"desc"`
	LongDesc string   `json:"long_desc"`
	Spec     string   `json:"spec"` // "" = implicit
	Items    []HItem  `json:"items"`
	Subs     []HSub   `json:"subs"`
	Long     bool     `json:"long"` // obtain the help through --help (else through a rejected invocation)
	// SelfHidden: the command under test is itself Hidden (set before it declares its sub commands): its own help must
	// still list its non-hidden sub commands
	SelfHidden bool `json:"self_hidden,omitempty"`
}

var vocabRe = regexp.MustCompile(`q[a-z]{1,6}[0-9]+z|QENV[0-9]+Z|QARG[0-9]+|73[0-9][0-9]|7[3-9]\.25`)

func typedDefault(typ int, toks []string) interface{} {
	switch typ {
	case TBool:
		return toks[0] == "true"
	case TString:
		return toks[0]
	case TInt:
		var i int
		fmt.Sscan(toks[0], &i)
		return i
	case TFloat:
		var f float64
		fmt.Sscan(toks[0], &f)
		return f
	case TStrings:
		return append([]string(nil), toks...)
	case TInts:
		var out []int
		for _, t := range toks {
			var i int
			fmt.Sscan(t, &i)
			out = append(out, i)
		}
		return out
	default:
		var out []float64
		for _, t := range toks {
			var f float64
			fmt.Sscan(t, &f)
			out = append(out, f)
		}
		return out
	}
}

func declareHelpItem(c *cli.Cmd, it *HItem) {
	for i, e := range it.Envs {
		if it.EnvVals[i] != "" {
			os.Setenv(e, it.EnvVals[i])
		}
	}
	defer func() {
		for _, e := range it.Envs {
			os.Unsetenv(e)
		}
	}()
	name := strings.Join(it.Names, " ")
	sep := it.EnvSep
	if sep == "" {
		sep = " "
	}
	env := strings.Join(it.Envs, sep)
	d := typedDefault(it.Typ, it.Default)
	switch it.Typ {
	case TBool:
		if it.IsArg {
			c.Bool(cli.BoolArg{Name: name, Desc: it.Desc, EnvVar: env, Value: d.(bool), HideValue: it.Hide})
		} else {
			c.Bool(cli.BoolOpt{Name: name, Desc: it.Desc, EnvVar: env, Value: d.(bool), HideValue: it.Hide})
		}
	case TString:
		if it.IsArg {
			c.String(cli.StringArg{Name: name, Desc: it.Desc, EnvVar: env, Value: d.(string), HideValue: it.Hide})
		} else {
			c.String(cli.StringOpt{Name: name, Desc: it.Desc, EnvVar: env, Value: d.(string), HideValue: it.Hide})
		}
	case TInt:
		if it.IsArg {
			c.Int(cli.IntArg{Name: name, Desc: it.Desc, EnvVar: env, Value: d.(int), HideValue: it.Hide})
		} else {
			c.Int(cli.IntOpt{Name: name, Desc: it.Desc, EnvVar: env, Value: d.(int), HideValue: it.Hide})
		}
	case TFloat:
		if it.IsArg {
			c.Float64(cli.Float64Arg{Name: name, Desc: it.Desc, EnvVar: env, Value: d.(float64), HideValue: it.Hide})
		} else {
			c.Float64(cli.Float64Opt{Name: name, Desc: it.Desc, EnvVar: env, Value: d.(float64), HideValue: it.Hide})
		}
	case TStrings:
		if it.IsArg {
			c.Strings(cli.StringsArg{Name: name, Desc: it.Desc, EnvVar: env, Value: d.([]string), HideValue: it.Hide})
		} else {
			c.Strings(cli.StringsOpt{Name: name, Desc: it.Desc, EnvVar: env, Value: d.([]string), HideValue: it.Hide})
		}
	case TInts:
		if it.IsArg {
			c.Ints(cli.IntsArg{Name: name, Desc: it.Desc, EnvVar: env, Value: d.([]int), HideValue: it.Hide})
		} else {
			c.Ints(cli.IntsOpt{Name: name, Desc: it.Desc, EnvVar: env, Value: d.([]int), HideValue: it.Hide})
		}
	default:
		if it.IsArg {
			c.Floats64(cli.Floats64Arg{Name: name, Desc: it.Desc, EnvVar: env, Value: d.([]float64), HideValue: it.Hide})
		} else {
			c.Floats64(cli.Floats64Opt{Name: name, Desc: it.Desc, EnvVar: env, Value: d.([]float64), HideValue: it.Hide})
		}
	}
}

func helpOutput(c *HelpCase) (string, Outcome) {
	var out Outcome
	var app *cli.Cli
	var argv []string
	WithSwap(&out, func() {
		appDesc := "zzappdesc"
		if len(c.Parents) == 0 {
			appDesc = c.Desc
		}
		app = cli.App("app", appDesc)
		app.ErrorHandling = flag.ContinueOnError
		var conf func(cmd *cli.Cmd, lvl int)
		conf = func(cmd *cli.Cmd, lvl int) {
			if lvl < len(c.Parents) {
				desc := "zzpardesc"
				if lvl == len(c.Parents)-1 {
					desc = c.Desc
				}
				cmd.Command(c.Parents[lvl], desc, func(s *cli.Cmd) { conf(s, lvl+1) })
				return
			}
			if c.SelfHidden && lvl > 0 {
				cmd.Hidden = true
			}
			for i := range c.Items {
				declareHelpItem(cmd, &c.Items[i])
			}
			cmd.Spec = c.Spec
			cmd.LongDesc = c.LongDesc
			for _, s := range c.Subs {
				s := s
				cmd.Command(strings.Join(s.Aliases, " "), s.Desc, func(sc *cli.Cmd) {
					if s.Hidden {
						sc.Hidden = true // a visible sub command never touches the field
					}
					sc.LongDesc = s.Long
					sc.Action = func() {}
				})
			}
			cmd.Action = func() { out.Accept = true }
		}
		if len(c.Parents) == 0 {
			// the command under test is the app itself: its description is the app description
			app.Cmd.LongDesc = c.LongDesc
		}
		conf(app.Cmd, 0)
		argv = append([]string{"app"}, c.Parents...)
		if c.Long {
			argv = append(argv, "--help")
		} else {
			argv = append(argv, "--qbadopt9z")
		}
		if err := app.Run(argv); err != nil {
			out.HasErr, out.Err = true, err.Error()
		}
	})
	// the same request a second time on the same application object must satisfy the same oracle
	// (only for the application's own help: the library re-runs sub command initializers on every Run, so a sub command
	// that declares anything cannot be reached twice on one application object - existing behaviour, not claimed)
	if out.Panic == "" && app != nil && len(c.Parents) == 0 {
		var out2 Outcome
		WithSwap(&out2, func() { _ = app.Run(argv) })
		if out2.Panic != "" {
			out.Panic = "second rendering: " + out2.Panic
		} else {
			out.Raw = map[string][]string{"second": {out2.All}}
		}
	}
	return out.All, out
}

func optAnchor(names []string) []string {
	fs, fl := "", ""
	for _, n := range names {
		if len(n) == 1 && fs == "" {
			fs = "-" + n
		}
		if len(n) > 1 && fl == "" {
			fl = "--" + n
		}
	}
	var a []string
	if fs != "" {
		a = append(a, fs)
	}
	if fl != "" {
		a = append(a, fl)
	}
	return a
}

// defaultWords returns the words the default must contribute to the row (nil = nothing expected),
// and whether the presence is left unasserted (numeric zero).
func defaultWords(it *HItem) (words []string, unasserted bool) {
	switch it.Typ {
	case TBool:
		if it.Default[0] == "true" {
			return []string{"true"}, false
		}
		return nil, false
	case TString:
		if it.Default[0] == "" {
			return nil, false
		}
		return strings.Fields(it.Default[0]), false
	case TInt, TFloat:
		if it.Default[0] == "0" {
			return nil, true
		}
		return []string{it.Default[0]}, false
	default:
		var w []string
		for _, d := range it.Default {
			w = append(w, strings.Fields(d)...)
		}
		return w, false
	}
}

// CheckC17 verifies the information content of the help text.
func CheckC17(c *HelpCase, st *Stats) *Violation {
	st.Eval()
	Begin("C17", "help", c)
	text, out := helpOutput(c)
	End()
	if out.Panic != "" {
		return Violf("printing help panicked: %s", out.Panic)
	}
	if v := checkHelpText(c, text, st, true); v != nil {
		return v
	}
	if sec := out.Raw["second"]; len(sec) == 1 {
		// the same request rendered a second time on the same application object must satisfy the same oracle
		if v := checkHelpText(c, sec[0], st, false); v != nil {
			v.Msg = "second rendering of the same help request on the same application object: " + v.Msg
			return v
		}
	}
	return nil
}

func checkHelpText(c *HelpCase, text string, st *Stats, book bool) *Violation {
	ws := strings.Fields(text)
	fail := func(format string, a ...interface{}) *Violation {
		return Violf(format+"\n--- help text ---\n%s", append(a, text)...)
	}
	// locate the usage line
	start := -1
	for i, w := range ws {
		if w == "Usage:" {
			start = i
			break
		}
	}
	if start < 0 {
		return fail("no usage line")
	}
	used := map[int]bool{}
	pos := start + 1
	expectSeq := func(what string, words []string) *Violation {
		for _, w := range words {
			if pos >= len(ws) || ws[pos] != w {
				got := "<end>"
				if pos < len(ws) {
					got = ws[pos]
				}
				return fail("%s: expected %q at word %d of the usage line, found %q", what, w, pos-start, got)
			}
			used[pos] = true
			pos++
		}
		return nil
	}
	path := append([]string{"app"}, c.Parents...)
	if v := expectSeq("command path", path); v != nil {
		return v
	}
	spec := c.Spec
	if spec == "" {
		var parts []string
		hasOpt := false
		for _, it := range c.Items {
			if !it.IsArg {
				hasOpt = true
			}
		}
		if hasOpt {
			parts = append(parts, "[OPTIONS]")
		}
		for _, it := range c.Items {
			if it.IsArg {
				parts = append(parts, it.Names[0])
			}
		}
		spec = strings.Join(parts, " ")
	}
	if v := expectSeq("spec", strings.Fields(spec)); v != nil {
		return v
	}
	marker := pos < len(ws) && ws[pos] == "COMMAND"
	visible := 0
	for _, s := range c.Subs {
		if !s.Hidden {
			visible++
		}
	}
	if marker != (len(c.Subs) > 0) && !(len(c.Subs) > 0 && visible == 0) {
		// (a command whose sub commands are all hidden may or may not advertise them: not asserted)
		return fail("COMMAND marker present=%v but the command has %d subcommands", marker, len(c.Subs))
	}
	find := func(from int, pred func(string) bool) int {
		for i := from; i < len(ws); i++ {
			if pred(ws[i]) {
				return i
			}
		}
		return -1
	}
	// description
	desc := c.Desc
	if c.Long && c.LongDesc != "" {
		desc = c.LongDesc
	}
	for _, w := range strings.Fields(desc) {
		p := find(pos, func(s string) bool { return s == w })
		if p < 0 {
			return fail("description word %q missing (long help=%v)", w, c.Long)
		}
		used[p] = true
		pos = p + 1
	}
	// rows: arguments in declaration order, then options in declaration order, then non-hidden commands
	type rowInfo struct {
		start  int
		forbid []string // words of a hidden default: they must not show up in the row
		what   string
	}
	var rows []rowInfo
	row := func(anchor []string, needs []string, what string, forbid []string) *Violation {
		s := -1
		matchAt := func(i int, names []string) bool {
			for j, n := range names {
				if i+j >= len(ws) || strings.TrimSuffix(ws[i+j], ",") != n {
					return false
				}
			}
			return true
		}
		rev := append([]string{}, anchor...)
		for a, b := 0, len(rev)-1; a < b; a, b = a+1, b-1 {
			rev[a], rev[b] = rev[b], rev[a]
		}
		for i := pos; i < len(ws); i++ {
			// the names stand together; which of them comes first is layout
			if matchAt(i, anchor) || matchAt(i, rev) {
				s = i
				break
			}
		}
		if s < 0 {
			return fail("%s: its names %v do not appear (in order) after the previous item", what, anchor)
		}
		for j := range anchor {
			used[s+j] = true
		}
		rows = append(rows, rowInfo{s, forbid, what})
		p := s + len(anchor)
		for _, w := range needs {
			q := find(p, func(x string) bool { return strings.Contains(x, w) })
			if q < 0 {
				return fail("%s: %q missing from its row", what, w)
			}
			used[q] = true
			p = q + 1
		}
		pos = p
		return nil
	}
	itemRow := func(it *HItem) *Violation {
		anchor := []string{it.Names[0]}
		if !it.IsArg {
			anchor = optAnchor(it.Names)
		}
		needs := strings.Fields(it.Desc)
		needs = append(needs, it.Envs...) // the names; how they are decorated ("$NAME") is layout
		dw, _ := defaultWords(it)
		var forbid []string
		if !it.Hide {
			needs = append(needs, dw...)
		} else {
			forbid = dw
		}
		return row(anchor, needs, fmt.Sprintf("item %v", it.Names), forbid)
	}
	for i := range c.Items {
		if c.Items[i].IsArg {
			if v := itemRow(&c.Items[i]); v != nil {
				return v
			}
		}
	}
	for i := range c.Items {
		if !c.Items[i].IsArg {
			if v := itemRow(&c.Items[i]); v != nil {
				return v
			}
		}
	}
	for _, s := range c.Subs {
		if s.Hidden {
			continue
		}
		if v := row(s.Aliases, strings.Fields(s.Desc), fmt.Sprintf("subcommand %v", s.Aliases), nil); v != nil {
			return v
		}
	}
	// the default of a hidden value must not be shown in the item's row (how a shown default is decorated is layout: only
	// the value itself is looked for; the generated defaults are distinctive words and numbers)
	for i, r := range rows {
		end := len(ws)
		if i+1 < len(rows) {
			end = rows[i+1].start
		}
		for _, f := range r.forbid {
			for _, w := range ws[r.start:end] {
				if strings.Contains(w, f) {
					return fail("%s: its value is hidden, yet its default %q is shown (%q)", r.what, f, w)
				}
			}
		}
	}
	// nothing undeclared, nothing hidden: every vocabulary-shaped word of the output is accounted for
	for i, w := range ws {
		if used[i] || i < start {
			continue
		}
		if m := vocabRe.FindString(w); m != "" {
			if m == "qbadopt9z" {
				continue // the error line quotes the offending token
			}
			// the trailer "Run 'path COMMAND --help'" repeats path words, which are not vocabulary shaped
			return fail("the word %q (position %d) is shown but no declared, visible item accounts for it there", w, i)
		}
	}
	// default of a hidden value must not be shown at all: covered by the accounting above when the default is vocabulary shaped
	hiddenCmd, hiddenVal, envList, partial := false, false, false, false
	for _, s := range c.Subs {
		hiddenCmd = hiddenCmd || s.Hidden
	}
	for _, it := range c.Items {
		hiddenVal = hiddenVal || it.Hide
		envList = envList || len(it.Envs) > 0
		if !it.IsArg && len(optAnchor(it.Names)) == 1 {
			partial = true
		}
	}
	if !book {
		return nil
	}
	if hiddenCmd {
		st.Class("has:hidden-command")
	}
	if hiddenVal {
		st.Class("has:hidden-value")
	}
	if envList {
		st.Class("has:env-list")
	}
	if partial {
		st.Class("has:option-with-only-short-or-only-long")
	}
	if c.Long {
		st.Class("route:long-help")
	} else {
		st.Class("route:short-help-after-rejection")
	}
	if len(c.Parents) > 0 {
		st.Class("depth>=1")
	}
	if (hiddenCmd || hiddenVal) && envList && partial {
		b, _ := json.Marshal(c)
		st.NonTrivial(string(b), func() interface{} { return c })
	}
	return nil
}

// GenHelpCase draws a help case from a distinctive vocabulary.
func GenHelpCase(t *rapid.T) *HelpCase {
	wc := 0
	word := func() string {
		wc++
		if chance(t, 1, 12, "percent") {
			// text is data, not a format string
			return fmt.Sprintf("qw%dz%s", wc, rapid.SampledFrom([]string{"%d", "%", "%s%v", "100%"}).Draw(t, "pct"))
		}
		return fmt.Sprintf("qw%dz", wc)
	}
	mkDesc := func() string {
		switch intn(t, 5, "desckind") {
		case 0:
			return ""
		case 1:
			return word() + " " + word()
		case 2:
			return "  " + word() + "\n   " + word() + " "
		case 3:
			return word() + "\n\n" + word()
		default:
			return word()
		}
	}
	c := &HelpCase{Desc: word(), Long: chance(t, 2, 3, "longhelp"), SelfHidden: chance(t, 1, 5, "selfhidden")}
	for i, n := 0, rapid.IntRange(0, 2).Draw(t, "depth"); i < n; i++ {
		c.Parents = append(c.Parents, fmt.Sprintf("pcmd%d", i))
	}
	if chance(t, 1, 2, "haslong") {
		c.LongDesc = word() + "\n  " + word()
	}
	mkEnvs := func(it *HItem, validVal func() string) {
		for i, n := 0, rapid.IntRange(0, 3).Draw(t, "nenvs"); i < n; i++ {
			wc++
			it.Envs = append(it.Envs, fmt.Sprintf("QENV%dZ", wc))
			v := ""
			if chance(t, 2, 3, "envset") {
				v = validVal()
			}
			it.EnvVals = append(it.EnvVals, v)
		}
	}
	mkTyped := func(it *HItem) {
		it.Typ = intn(t, 7, "htyp")
		switch it.Typ {
		case TBool:
			it.Default = []string{rapid.SampledFrom([]string{"false", "true"}).Draw(t, "bdef")}
			mkEnvs(it, func() string { return rapid.SampledFrom([]string{"true", "false"}).Draw(t, "benv") })
		case TString:
			d := ""
			if chance(t, 2, 3, "sdef") {
				d = word()
				if chance(t, 1, 4, "sdef2") {
					d += " " + word()
				}
			}
			it.Default = []string{d}
			mkEnvs(it, func() string { return word() })
		case TInt:
			it.Default = []string{rapid.SampledFrom([]string{"0", "7301", "7302"}).Draw(t, "idef")}
			mkEnvs(it, func() string { return rapid.SampledFrom([]string{"7355", "7366"}).Draw(t, "ienv") })
		case TFloat:
			it.Default = []string{rapid.SampledFrom([]string{"0", "73.25", "74.25"}).Draw(t, "fdef")}
			mkEnvs(it, func() string { return rapid.SampledFrom([]string{"78.25", "79.25"}).Draw(t, "fenv") })
		case TStrings:
			for j, n := 0, rapid.IntRange(0, 2).Draw(t, "nsdef"); j < n; j++ {
				it.Default = append(it.Default, word())
			}
			mkEnvs(it, func() string { return word() + "," + word() })
		case TInts:
			for j, n := 0, rapid.IntRange(0, 2).Draw(t, "nidef"); j < n; j++ {
				it.Default = append(it.Default, fmt.Sprint(7303+j))
			}
			mkEnvs(it, func() string { return "7377,7388" })
		default:
			for j, n := 0, rapid.IntRange(0, 2).Draw(t, "nfdef"); j < n; j++ {
				it.Default = append(it.Default, fmt.Sprintf("%d.25", 75+j))
			}
			mkEnvs(it, func() string { return "77.25" })
		}
		it.Hide = chance(t, 1, 3, "hide")
		it.EnvSep = "" // documented: a space separated list
	}
	na := rapid.IntRange(0, 4).Draw(t, "nargs")
	no := rapid.IntRange(0, 5).Draw(t, "nopts")
	// declaration calls may interleave arguments and options
	order := rapid.Permutation(allIdx(na+no)).Draw(t, "declorder")
	ai, oi := 0, 0
	letters := rapid.Permutation([]string{"a", "b", "c", "d", "e", "f", "g", "i", "j", "k", "m", "n", "A", "B", "C"}).Draw(t, "letters")
	li := 0
	nonASCII := 0
	nonASCIINames := []string{"éa", "üb", "ñc", "ßd", "øe", "åf"}
	for _, idx := range order {
		if idx < na {
			it := HItem{IsArg: true, Names: []string{fmt.Sprintf("QARG%d", ai)}, Desc: mkDesc()}
			ai++
			mkTyped(&it)
			c.Items = append(c.Items, it)
			continue
		}
		it := HItem{Desc: mkDesc()}
		for j, n := 0, rapid.IntRange(1, 3).Draw(t, "nnames"); j < n; j++ {
			if chance(t, 1, 2, "short") && li < len(letters) {
				it.Names = append(it.Names, letters[li])
				li++
			} else if nonASCII < len(nonASCIINames) && chance(t, 1, 10, "nonascii") {
				// not ASCII, two letters: a long name whether letters are counted in bytes or in characters
				it.Names = append(it.Names, nonASCIINames[nonASCII])
				nonASCII++
			} else {
				wc++
				it.Names = append(it.Names, fmt.Sprintf("qlng%dz", wc))
			}
		}
		oi++
		mkTyped(&it)
		c.Items = append(c.Items, it)
	}
	for i, n := 0, rapid.IntRange(0, 4).Draw(t, "nsubs"); i < n; i++ {
		var s HSub
		for j, k := 0, rapid.IntRange(1, 3).Draw(t, "naliases"); j < k; j++ {
			wc++
			s.Aliases = append(s.Aliases, fmt.Sprintf("qcmd%dz", wc))
		}
		s.Desc = word()
		if chance(t, 1, 3, "multilinesubdesc") {
			s.Desc = word() + "\n" + word() // every line of a sub command's description belongs to its row
		}
		s.Long = word()
		s.Hidden = chance(t, 1, 3, "hidden")
		c.Subs = append(c.Subs, s)
	}
	if na > 0 && chance(t, 1, 3, "explicitspec") {
		// an explicit spec over the same names: every argument optional, options through OPTIONS
		var parts []string
		if no > 0 {
			parts = append(parts, "[OPTIONS]")
		}
		for _, it := range c.Items {
			if it.IsArg {
				parts = append(parts, "["+it.Names[0]+"]")
			}
		}
		c.Spec = strings.Join(parts, "  ")
	}
	return c
}

func init() {
	RegisterReplay("C17", "help", func(raw json.RawMessage) *Violation {
		var c HelpCase
		if err := json.Unmarshal(raw, &c); err != nil {
			return Violf("bad replay file: %v", err)
		}
		return CheckC17(&c, StatsFor("C17.replay"))
	})
}
