package vh

import (
	"encoding/json"
	"os"
	"path/filepath"
	"strings"
	"testing"
)

func TestMain(m *testing.M) {
	Setup()
	code := m.Run()
	FlushStats()
	os.Exit(code)
}

// TestReplay re-runs saved cases (VERIF_REPLAY: files or directories, separated by ':') without rapid.
func TestReplay(t *testing.T) {
	var files []string
	for _, p := range strings.Split(os.Getenv("VERIF_REPLAY"), ":") {
		if p == "" {
			continue
		}
		if fi, err := os.Stat(p); err == nil && fi.IsDir() {
			m, _ := filepath.Glob(filepath.Join(p, "*.json"))
			files = append(files, m...)
		} else if err == nil {
			files = append(files, p)
		} else {
			t.Errorf("REPLAY-BAD %s: %v", p, err)
		}
	}
	only := os.Getenv("VERIF_REPLAY_PROPERTY")
	for _, f := range files {
		b, err := os.ReadFile(f)
		if err != nil {
			t.Errorf("REPLAY-BAD %s: %v", f, err)
			continue
		}
		var e Envelope
		if err := json.Unmarshal(b, &e); err != nil {
			t.Errorf("REPLAY-BAD %s: %v", f, err)
			continue
		}
		if only != "" && e.Property != only {
			continue
		}
		v, err := Replay(e)
		if err != nil {
			t.Errorf("REPLAY-BAD %s: %v", f, err)
			continue
		}
		StatsFor(e.Property + ".replayed").Eval()
		if v != nil {
			SaveFailureAs(f, e.Property, e.Kind, e.Case, v.Msg)
			t.Errorf("REPLAY-FAIL %s %s: %s", e.Property, f, v.Msg)
		}
	}
}
