package vh

import (
	"encoding/json"
	"fmt"
	"reflect"

	cli "github.com/jawher/mow.cli"
)

// Hook behaviours of a fault plan.
const (
	HAbsent = iota
	HReturns
	HPanics
	HExits
)

// FlowCase is a fault plan: a path of Depth+1 commands; Beh holds, for Before_0..Before_d, Action, After_0..After_d,
// one of {absent, returns, panics with a unique value, calls Exit(100+i)}.
type FlowCase struct {
	Depth int   `json:"depth"`
	Beh   []int `json:"beh"`
	// Policy: error handling policy of the application (0 ContinueOnError, 1 ExitOnError, 2 PanicOnError)
	Policy int `json:"policy,omitempty"`
	// extras (rapid part): sibling commands and a command below the addressed one, all with hooks that must never run
	Siblings bool `json:"siblings,omitempty"`
	Below    bool `json:"below,omitempty"`
	// Twice: the same application object is Run a second time with the same vector; the second invocation is a valid
	// invocation like the first and must show the same behaviour
	Twice bool `json:"twice,omitempty"`
	// HelpIn: hooks (indexed like Beh) that first print the root command's help ("app.PrintHelp(); cli.Exit(2)" is the
	// documented way to refuse an invocation from inside an Action)
	HelpIn []bool `json:"help_in,omitempty"`
}

type panicMarker struct{ idx int }

// ExitCode makes the panic value look like the error types that carry a child's exit status (os/exec.ExitError has
// exactly this method): it is still an ordinary panic value, not a request to exit.
func (m *panicMarker) ExitCode() int { return 3 }

// panicErrMarker is a panic value that implements error (what a hook panicking with an error, or a runtime error,
// raises): "any other panic value is re-raised unchanged" includes those, under every error policy.
type panicErrMarker struct{ idx int }

func (m *panicErrMarker) Error() string { return fmt.Sprintf("hook %d failed", m.idx) }

// exitCodeOf is the status hook idx exits with: mostly 100+idx, but every third hook uses Exit(0) - "exit with status 0"
// is an exit like any other and must not be confused with "no exit requested".
func exitCodeOf(idx int) int {
	if idx%3 == 0 {
		return 0
	}
	return 100 + idx
}

// flowRun executes the plan against the library (and, for Twice, a second time on the same application object: the
// results of the second run are returned then, after the first run was found to be as the model says).
func flowRun(c *FlowCase) (log []string, end string, strayPanic interface{}) {
	d := c.Depth
	var out Outcome
	var app *cli.Cli
	var argv []string
	markers := map[interface{}]bool{} // every marker value a hook of this plan may raise (initializers can run more than once)
	mk0 := func(name string, b int, idx int) func() {
		switch b {
		case HAbsent:
			return nil
		case HReturns:
			return func() { log = append(log, name) }
		case HPanics:
			if idx%2 == 1 {
				m := &panicErrMarker{idx}
				markers[m] = true
				return func() { log = append(log, name); panic(m) }
			}
			m := &panicMarker{idx}
			markers[m] = true
			return func() { log = append(log, name); panic(m) }
		default:
			return func() { log = append(log, name); cli.Exit(exitCodeOf(idx)) }
		}
	}
	mk := func(name string, b int, idx int) func() {
		f := mk0(name, b, idx)
		if f == nil || idx >= len(c.HelpIn) || !c.HelpIn[idx] {
			return f
		}
		return func() {
			if app != nil {
				app.PrintHelp()
			}
			f()
		}
	}
	never := func(name string) func() { return func() { log = append(log, "NEVER:"+name) } }
	WithSwapExit(&out, func(code int) { log = append(log, fmt.Sprintf("EXIT(%d)", code)) }, func() {
		app = cli.App("app", "")
		app.ErrorHandling = policies[c.Policy%3] // a valid invocation: the error policy must not matter
		argv = []string{"app"}
		var conf func(cmd *cli.Cmd, lvl int)
		conf = func(cmd *cli.Cmd, lvl int) {
			cmd.Before = mk(fmt.Sprintf("B%d", lvl), c.Beh[lvl], lvl)
			cmd.After = mk(fmt.Sprintf("F%d", lvl), c.Beh[d+2+lvl], d+2+lvl)
			if c.Siblings {
				cmd.Command(fmt.Sprintf("sib%d", lvl), "", func(s *cli.Cmd) {
					s.Before, s.After, s.Action = never("sibB"), never("sibF"), never("sibA")
				})
			}
			if lvl == d {
				cmd.Action = mk("A", c.Beh[d+1], d+1)
				if c.Below {
					cmd.Command("below", "", func(s *cli.Cmd) {
						s.Before, s.After, s.Action = never("belowB"), never("belowF"), never("belowA")
					})
				}
				return
			}
			cmd.Command(fmt.Sprintf("c%d", lvl+1), "", func(s *cli.Cmd) { conf(s, lvl+1) })
		}
		conf(app.Cmd, 0)
		for l := 1; l <= d; l++ {
			argv = append(argv, fmt.Sprintf("c%d", l))
		}
		err := app.Run(argv)
		end = fmt.Sprintf("return(%v)", err)
	})
	if c.Twice {
		firstLog, firstEnd := log, flowEnd(&out, end, markers)
		ml, me := flowModel(c)
		if c.Beh[d+1] != HAbsent && (!reflect.DeepEqual(firstLog, ml) || firstEnd != me) {
			return firstLog, firstEnd, nil // the first run already deviates: report that one
		}
		log, end = nil, ""
		out = Outcome{}
		WithSwapExit(&out, func(code int) { log = append(log, fmt.Sprintf("EXIT(%d)", code)) }, func() {
			err := app.Run(argv)
			end = fmt.Sprintf("return(%v)", err)
		})
	}
	end = flowEnd(&out, end, markers)
	if end == "panic(other)" {
		strayPanic = out.PanicVal
	}
	return
}

func flowEnd(out *Outcome, end string, markers map[interface{}]bool) string {
	switch {
	case out.Exit != nil:
		return fmt.Sprintf("exit(%d)x%d", *out.Exit, out.Exits)
	case out.PanicVal != nil:
		if m, ok := out.PanicVal.(*panicMarker); ok && markers[m] {
			return fmt.Sprintf("panic(P%d)", m.idx)
		}
		if m, ok := out.PanicVal.(*panicErrMarker); ok && markers[m] {
			return fmt.Sprintf("panic(P%d)", m.idx)
		}
		return "panic(other)"
	}
	return end
}

// flowModel is the reference model of the statement.
func flowModel(c *FlowCase) (log []string, end string) {
	d := c.Depth
	raised := ""
	raise := func(b, idx int) {
		if b == HPanics {
			raised = fmt.Sprintf("panic(P%d)", idx)
		} else if b == HExits {
			raised = fmt.Sprintf("exit(%d)x1", exitCodeOf(idx))
		}
	}
	var completed []int
	failed := false
	for l := 0; l <= d; l++ {
		b := c.Beh[l]
		if b == HAbsent {
			completed = append(completed, l)
			continue
		}
		log = append(log, fmt.Sprintf("B%d", l))
		if b == HReturns {
			completed = append(completed, l)
			continue
		}
		raise(b, l)
		failed = true
		break
	}
	if !failed {
		if b := c.Beh[d+1]; b != HAbsent {
			log = append(log, "A")
			raise(b, d+1)
		}
	}
	for i := len(completed) - 1; i >= 0; i-- {
		l := completed[i]
		b := c.Beh[d+2+l]
		if b == HAbsent {
			continue
		}
		log = append(log, fmt.Sprintf("F%d", l))
		raise(b, d+2+l)
	}
	if raised == "" {
		return log, "return(<nil>)"
	}
	if len(raised) > 4 && raised[:4] == "exit" {
		var code int
		fmt.Sscanf(raised, "exit(%d)", &code)
		log = append(log, fmt.Sprintf("EXIT(%d)", code))
	}
	return log, raised
}

// CheckC05 compares the library with the model on one plan. It reports whether the plan is claimed.
func CheckC05(c *FlowCase) (v *Violation, claimed bool, faulty bool) {
	d := c.Depth
	if len(c.Beh) != 2*d+3 {
		return Violf("malformed plan"), false, false
	}
	if c.Beh[d+1] == HAbsent {
		// the addressed command has no Action: the library prints its help and then follows the error policy (exit 2, or
		// panic(nil)); that is another contract - the weak invariants below are checked under ContinueOnError only
		cc := *c
		cc.Policy = 0
		c = &cc
	}
	gl, ge, stray := flowRun(c)
	if stray != nil {
		return Violf("plan %v depth %d: Run panicked with a value no hook raised: %v", c.Beh, d, stray), true, true
	}
	for _, b := range c.Beh {
		if b == HPanics || b == HExits {
			faulty = true
		}
	}
	if c.Beh[d+1] == HAbsent {
		// the addressed command has no Action: the library prints help and runs nothing (another contract).
		// weak invariants only: each hook at most once, no After without its Before having completed, nothing "never".
		seen := map[string]int{}
		for _, e := range gl {
			seen[e]++
			if seen[e] > 1 {
				return Violf("plan %v depth %d (no Action): hook %s ran twice: %v", c.Beh, d, e, gl), false, faulty
			}
			if len(e) > 5 && e[:5] == "NEVER" {
				return Violf("plan %v depth %d (no Action): a hook of a command that is not on the path ran: %v", c.Beh, d, gl), false, faulty
			}
		}
		return nil, false, faulty
	}
	ml, me := flowModel(c)
	if !reflect.DeepEqual(gl, ml) || ge != me {
		return Violf("fault plan depth=%d beh=%v (B0..Bd, Action, F0..Fd; 0 absent 1 returns 2 panics 3 exits) siblings=%v below=%v second-run-on-same-app=%v: library ran %v and ended with %s; the contract requires %v and %s",
			d, c.Beh, c.Siblings, c.Below, c.Twice, gl, ge, ml, me), true, faulty
	}
	return nil, true, faulty
}

func init() {
	RegisterReplay("C05", "flow", func(raw json.RawMessage) *Violation {
		var c FlowCase
		if err := json.Unmarshal(raw, &c); err != nil {
			return Violf("bad replay file: %v", err)
		}
		v, _, _ := CheckC05(&c)
		return v
	})
}
