package vh

import (
	"fmt"
	"strings"
	"testing"

	"pgregory.net/rapid"
)

func vkey(c *ValueCase) string {
	return describeContainers(c) + fmt.Sprint(c.OptsSpec, c.ArgDD, c.WriteDD)
}

func vbrief(c *ValueCase) func() interface{} {
	return func() interface{} {
		spec, argv := valueSpecArgv(c)
		return map[string]interface{}{"spec": spec, "argv": argv, "containers": c.Cs}
	}
}

func TestC06(t *testing.T) {
	st := StatsFor("C06")
	mode := ValueGenMode{EnvChance: 6, CliMax: 3, ValidOnly: true, CliZero: 4}
	rapid.Check(t, func(rt *rapid.T) {
		c := GenValueCase(rt, mode)
		v, res := CheckValues("C06", c, st)
		Report(rt, "C06", "values", c, v)
		if !res.Accepted {
			return
		}
		// non-trivial: at least two of the three sources are present and disagree
		nt := false
		for i, vc := range c.Cs {
			e := res.Exp[i]
			srcs := 0
			var vals [][]interface{}
			if len(vc.Cli) > 0 {
				srcs++
				vals = append(vals, e.vals)
			}
			envPresent := false
			for _, ev := range vc.Env {
				if ev.Set && ev.Val != "" {
					envPresent = true
				}
			}
			if envPresent {
				srcs++
				st.Class("container:env-present")
			}
			if len(vc.Default) > 0 {
				srcs++
			}
			_ = vals
			if srcs >= 2 && (len(vc.Cli) > 0 || envPresent) {
				nt = true
			}
			if multi(vc.Typ) {
				st.Class("container:multi-valued")
			}
			if c.ShareDefaults {
				st.Class("container:shares-default-slice-with-twin")
			}
			if e.f9 {
				st.Class("container:f9-class")
			}
		}
		if nt {
			st.NonTrivial(vkey(c), vbrief(c))
		}
	})
}

func TestC13(t *testing.T) {
	st := StatsFor("C13")
	mode := ValueGenMode{EnvChance: 3, CliMax: 2, ValidOnly: false, OneOnly: true, CliZero: 2}
	rapid.Check(t, func(rt *rapid.T) {
		m := mode
		// a third of the cases carry several containers: a failed conversion of one must not be lost because another one converts
		m.OneOnly = !chance(rt, 1, 3, "several")
		c := GenValueCase(rt, m)
		if len(c.Cs) > 1 {
			st.Class("app:several-containers")
		}
		v, res := CheckValues("C13", c, st)
		Report(rt, "C13", "values", c, v)
		nt := false
		for i, vc := range c.Cs {
			st.Class("type:" + typeNames[vc.Typ])
			if vc.IsArg {
				st.Class("route:argument")
			} else {
				st.Class("route:option")
			}
			toks := []string{}
			for _, cv := range vc.Cli {
				toks = append(toks, cv.Tok)
			}
			if len(vc.Cli) == 0 {
				for _, ev := range vc.Env {
					if ev.Set && ev.Val != "" {
						st.Class("route:environment")
						if multi(vc.Typ) {
							for _, p := range strings.Split(ev.Val, ",") {
								toks = append(toks, strings.TrimSpace(p))
							}
						} else {
							toks = append(toks, ev.Val)
						}
					}
				}
			}
			for _, tk := range toks {
				pv, ok := parseTyped(vc.Typ, tk)
				if !ok {
					nt = true
					st.Class("token:strconv-rejects")
				} else if fmt.Sprint(pv) != tk {
					nt = true
					st.Class("token:non-canonical-but-valid")
				}
			}
			_ = res.Exp[i]
		}
		if nt {
			st.NonTrivial(vkey(c), vbrief(c))
		}
	})
}

func TestC15(t *testing.T) {
	st := StatsFor("C15")
	mode := ValueGenMode{EnvChance: 5, CliMax: 2, ValidOnly: true, CliZero: 3}
	rapid.Check(t, func(rt *rapid.T) {
		c := GenValueCase(rt, mode)
		v, res := CheckValues("C15", c, st)
		Report(rt, "C15", "values", c, v)
		if !res.Accepted {
			return
		}
		nt := false
		for i, vc := range c.Cs {
			e := res.Exp[i]
			switch {
			case len(vc.Cli) > 0 && e.byUser:
				st.Class("setbyuser:true")
			default:
				st.Class("setbyuser:false")
			}
			envValid := false
			for _, ev := range vc.Env {
				if ev.Set && ev.Val != "" {
					envValid = true
				}
			}
			if envValid && len(vc.Cli) == 0 {
				st.Class("env-present-cli-absent")
				nt = true
			}
			if envValid && len(vc.Cli) > 0 {
				st.Class("env-and-cli-present")
				nt = true
			}
			if vc.IsArg {
				st.Class("kind:argument")
			} else {
				st.Class("kind:option")
			}
		}
		if nt {
			st.NonTrivial(vkey(c), vbrief(c))
		}
	})
}

// TestC15Parse: the flag on arbitrary (ambiguous, backtracking) specs, where a container can be tried on a branch the
// parser abandons.
func TestC15Parse(t *testing.T) {
	st := StatsFor("C15")
	cfg := GenCfg{Depth: 3, Env: true, DD: true}
	rapid.Check(t, func(rt *rapid.T) {
		c := GenParseCase(rt, cfg)
		Report(rt, "C15", "parse", c, CheckC15Parse(c, st))
	})
}
