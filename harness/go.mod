module github.com/jawher/mow.cli/verifharness

go 1.23

require (
	github.com/jawher/mow.cli v0.0.0
	pgregory.net/rapid v1.3.0
)

replace github.com/jawher/mow.cli => /repo
