package vh

import (
	"bytes"
	"encoding/json"
	"flag"
	"fmt"
	"strings"

	cli "github.com/jawher/mow.cli"
	"github.com/jawher/mow.cli/internal/container"
	"github.com/jawher/mow.cli/internal/lexer"
	"github.com/jawher/mow.cli/internal/parser"
)

// SpecCase is a spec string with the names declared for it. The string may hold arbitrary bytes, hence []byte.
type SpecCase struct {
	Spec   []byte   `json:"spec_bytes"`
	Quoted string   `json:"spec_quoted"`
	Opts   []string `json:"opts"` // declared option names with dashes; one option per entry ("-a --aa" = two names of one option)
	Args   []string `json:"args"` // declared argument names
	ViaRun bool     `json:"via_run,omitempty"`
}

// NewSpecCase builds a case.
func NewSpecCase(spec string, opts, args []string) *SpecCase {
	return &SpecCase{Spec: []byte(spec), Quoted: fmt.Sprintf("%q", spec), Opts: opts, Args: args}
}

// specParams builds parser parameters over bare containers.
func specParams(opts, args []string) (parser.Params, func(string) bool) {
	p := parser.Params{OptionsIdx: map[string]*container.Container{}, ArgsIdx: map[string]*container.Container{}}
	names := map[string]bool{}
	for _, o := range opts {
		ns := strings.Fields(o)
		c := &container.Container{Name: o, Names: ns, Value: &BRec{}}
		p.Options = append(p.Options, c)
		for _, n := range ns {
			p.OptionsIdx[n] = c
			names[n] = true
		}
	}
	for _, a := range args {
		c := &container.Container{Name: a, Value: &Rec{}}
		p.Args = append(p.Args, c)
		p.ArgsIdx[a] = c
		names[a] = true
	}
	return p, func(n string) bool { return names[n] }
}

var lexTypeOf = map[lexer.TokenType]string{
	lexer.TTArg: "Arg", lexer.TTOptions: "Options", lexer.TTShortOpt: "Short", lexer.TTOptSeq: "Seq", lexer.TTLongOpt: "Long",
	lexer.TTDoubleDash: "DD", lexer.TTOptValue: "Value", lexer.TTRep: "Rep", lexer.TTOpenPar: "(", lexer.TTClosePar: ")",
	lexer.TTOpenSq: "[", lexer.TTCloseSq: "]", lexer.TTChoice: "|",
}

func realSpec(s string, params parser.Params) (toks []*lexer.Token, perr *lexer.ParseError, other error, panicked interface{}) {
	defer func() {
		if p := recover(); p != nil {
			panicked = p
		}
	}()
	toks, err := lexer.Tokenize(s)
	if err != nil {
		pe, ok := err.(*lexer.ParseError)
		if !ok {
			return nil, nil, err, nil
		}
		return nil, pe, nil, nil
	}
	params.Spec = s
	_, err = parser.Parse(toks, params)
	if err != nil {
		pe, ok := err.(*lexer.ParseError)
		if !ok {
			return toks, nil, err, nil
		}
		return toks, pe, nil, nil
	}
	return toks, nil, nil, nil
}

// SpecResult tells the caller what happened (for class counters).
type SpecResult struct {
	Accepted bool
	NTokens  int
	ErrPos   int
}

// CheckSpecString compares lexer.Tokenize + parser.Parse with the independent recogniser on one string.
func CheckSpecString(s string, params parser.Params, declared func(string) bool) (*Violation, SpecResult) {
	var res SpecResult
	rtoks, rerr, other, pan := realSpec(s, params)
	mtoks, merr := SpecCheck(s, declared)
	if pan != nil {
		return Violf("compiling spec %q panicked: %v", s, pan), res
	}
	if other != nil {
		return Violf("compiling spec %q returned an error that is not a *lexer.ParseError: %v", s, other), res
	}
	if (rerr == nil) != (merr == nil) {
		if rerr != nil {
			return Violf("spec %q is well-formed (references only declared names, no option after --) but was rejected: %s at %d", s, rerr.Msg, rerr.Pos), res
		}
		return Violf("spec %q is not well-formed (%s at [%d,%d]) but was compiled", s, merr.Msg, merr.Lo, merr.Hi), res
	}
	if rerr == nil {
		res.Accepted, res.NTokens = true, len(rtoks)
		// tiling, checked directly on the library's tokens
		pos := 0
		for i, tk := range rtoks {
			txt := tk.Val
			if tk.Typ == lexer.TTOptSeq && !strings.HasPrefix(txt, "-") {
				txt = "-" + txt // the library reports a folded sequence without its dash; with it is as faithful
			}
			if tk.Pos < pos || tk.Pos+len(txt) > len(s) || s[tk.Pos:tk.Pos+len(txt)] != txt {
				return Violf("spec %q: token %d %v does not report its text/position faithfully", s, i, tk), res
			}
			for _, b := range []byte(s[pos:tk.Pos]) {
				if b != ' ' && b != '\t' {
					return Violf("spec %q: non-blank byte %q before token %d belongs to no token", s, b, i), res
				}
			}
			pos = tk.Pos + len(txt)
		}
		for _, b := range []byte(s[pos:]) {
			if b != ' ' && b != '\t' {
				return Violf("spec %q: trailing non-blank byte %q belongs to no token", s, b), res
			}
		}
		if len(rtoks) != len(mtoks) {
			return Violf("spec %q: %d tokens, recogniser finds %d", s, len(rtoks), len(mtoks)), res
		}
		for i := range rtoks {
			txt := rtoks[i].Val
			if rtoks[i].Typ == lexer.TTOptSeq && !strings.HasPrefix(txt, "-") {
				txt = "-" + txt
			}
			if txt != mtoks[i].Text || rtoks[i].Pos != mtoks[i].Pos || lexTypeOf[rtoks[i].Typ] != mtoks[i].Typ {
				return Violf("spec %q: token %d is %v, recogniser finds %s(%q)@%d", s, i, rtoks[i], mtoks[i].Typ, mtoks[i].Text, mtoks[i].Pos), res
			}
		}
		return nil, res
	}
	res.ErrPos = rerr.Pos
	if rerr.Pos < 0 || rerr.Pos > len(s) {
		return Violf("spec %q: error position %d outside the string", s, rerr.Pos), res
	}
	if !merr.Admits(rerr.Pos) {
		return Violf("spec %q: error position %d is not at an offending token (first one: [%d,%d] %s; others: %v)", s, rerr.Pos, merr.Lo, merr.Hi, merr.Msg, merr.Also), res
	}
	func() {
		defer func() {
			if p := recover(); p != nil {
				pan = p
			}
		}()
		_ = rerr.Error()
	}()
	if pan != nil {
		return Violf("spec %q: ParseError.Error() panicked: %v", s, pan), res
	}
	return nil, res
}

// CheckSpecViaRun checks the public surface: Run panics with the spec error before any Action or interceptor.
func CheckSpecViaRun(c *SpecCase) *Violation {
	if v := checkSpecViaRun(c, false); v != nil {
		return v
	}
	// the same spec on a sub command whose parent has interceptors: it is compiled when the command is reached, which must
	// still be before any interceptor runs
	return checkSpecViaRun(c, true)
}

func checkSpecViaRun(c *SpecCase, sub bool) *Violation {
	s := string(c.Spec)
	_, declared := specParams(c.Opts, c.Args)
	_, merr := SpecCheck(s, declared)
	var log []string
	var out Outcome
	WithSwap(&out, func() {
		app := cli.App("app", "")
		app.ErrorHandling = flag.ContinueOnError
		declare := func(cmd *cli.Cmd) {
			for _, o := range c.Opts {
				var parts []string
				for _, n := range strings.Fields(o) {
					parts = append(parts, strings.TrimLeft(n, "-"))
				}
				cmd.Var(cli.VarOpt{Name: strings.Join(parts, " "), Value: &BRec{}})
			}
			for _, a := range c.Args {
				cmd.Var(cli.VarArg{Name: a, Value: &Rec{}})
			}
			cmd.Spec = s
			cmd.Before = func() { log = append(log, "before") }
			cmd.After = func() { log = append(log, "after") }
			cmd.Action = func() { log = append(log, "action") }
		}
		if sub {
			app.Before = func() { log = append(log, "parent-before") }
			app.After = func() { log = append(log, "parent-after") }
			app.Command("sub", "", declare)
			_ = app.Run([]string{"app", "sub"})
			return
		}
		declare(app.Cmd)
		_ = app.Run([]string{"app"})
	})
	where := "Run"
	if sub {
		where = "Run (spec of a sub command, parent with interceptors)"
	}
	pe, isSpecErr := out.PanicVal.(*lexer.ParseError)
	if s == "" {
		return nil // an empty Spec means "implicit spec" (C16), not a spec string
	}
	if merr != nil {
		if !isSpecErr {
			return Violf("%s with the ill-formed spec %q did not panic with a spec error (panic=%q, hooks=%v)", where, s, out.Panic, log)
		}
		if len(log) != 0 {
			return Violf("%s with the ill-formed spec %q ran %v before panicking", where, s, log)
		}
		if pe.Pos < 0 || pe.Pos > len(s) || !merr.Admits(pe.Pos) {
			return Violf("%s with the ill-formed spec %q panicked with error position %d, which is not at an offending token (first one: [%d,%d] %s; others: %v)", where, s, pe.Pos, merr.Lo, merr.Hi, merr.Msg, merr.Also)
		}
		return nil
	}
	if out.Panic != "" {
		return Violf("%s with the well-formed spec %q panicked: %s", where, s, out.Panic)
	}
	return nil
}

// enumAlphabet is the character-class alphabet of the exhaustive part (see TestC08Exhaustive).
var enumAlphabet = []byte{' ', '\t', '[', ']', '(', ')', '|', '.', '-', '=', '<', '>', 'a', 'b', 'X', 'Y', '1', '_', 0xc3}

// inEnumeratedSpace: the string is short enough and over the alphabet of the exhaustive enumeration, which counts its
// non-trivial strings by construction; a random case falling into that space is not counted a second time (whatever
// its naming: conservative).
func inEnumeratedSpace(s string) bool {
	if len(s) > EnvInt("VERIF_C08_L", 5) {
		return false
	}
	for i := 0; i < len(s); i++ {
		if bytes.IndexByte(enumAlphabet, s[i]) < 0 {
			return false
		}
	}
	return true
}

// CheckC08 evaluates one spec case.
func CheckC08(c *SpecCase, st *Stats) *Violation {
	st.Eval()
	s := string(c.Spec)
	params, declared := specParams(c.Opts, c.Args)
	Begin("C08", "spec", c)
	v, res := CheckSpecString(s, params, declared)
	if v == nil && c.ViaRun {
		v = CheckSpecViaRun(c)
	}
	End()
	if v != nil {
		return v
	}
	if res.Accepted {
		st.Class("verdict:compiled")
	} else {
		st.Class("verdict:rejected")
	}
	if ((res.Accepted && res.NTokens >= 3) || (!res.Accepted && res.ErrPos > 0)) && !inEnumeratedSpace(s) {
		st.NonTrivial(c.Quoted+"\x00"+strings.Join(c.Opts, ",")+"\x00"+strings.Join(c.Args, ","), func() interface{} {
			return map[string]interface{}{"spec": c.Quoted, "opts": c.Opts, "args": c.Args, "compiled": res.Accepted}
		})
	}
	return nil
}

func init() {
	RegisterReplay("C08", "spec", func(raw json.RawMessage) *Violation {
		var c SpecCase
		if err := json.Unmarshal(raw, &c); err != nil {
			return Violf("bad replay file: %v", err)
		}
		return CheckC08(&c, StatsFor("C08.replay"))
	})
}
