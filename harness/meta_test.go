package vh

import (
	"reflect"
	"testing"

	"pgregory.net/rapid"
)

func TestC10(t *testing.T) {
	st := StatsFor("C10")
	rapid.Check(t, func(rt *rapid.T) {
		c, head, tailToks := GenItemsCase(rt)
		c.A = SpellHeadTail(rt, c.D, head, tailToks)
		c.B = SpellHeadTail(rt, c.D, head, tailToks)
		for k := 0; k < 4 && reflect.DeepEqual(c.A, c.B); k++ {
			c.B = SpellHeadTail(rt, c.D, head, tailToks) // comparing a command line with itself says nothing
		}
		Report(rt, "C10", "respell", c, CheckC10(c, st))
	})
}

func TestC11(t *testing.T) {
	st := StatsFor("C11")
	rapid.Check(t, func(rt *rapid.T) {
		adjacent := func(head []Item) (cand []int) {
			for p := 0; p+1 < len(head); p++ {
				if head[p].Opt >= 0 && head[p+1].Opt >= 0 && head[p].Opt != head[p+1].Opt {
					cand = append(cand, p)
				}
			}
			return
		}
		c, head, tailToks := GenItemsCaseWant(rt, func(h []Item) bool { return len(adjacent(h)) > 0 })
		cand := adjacent(head)
		if len(cand) == 0 {
			// make one: append two occurrences of different options when the declarations allow it
			if len(c.D.Opts) < 2 {
				st.Eval()
				st.Class("skipped:single-option-program")
				return
			}
			g := &argvGen{t: rt, d: c.D, cfg: metaCfg}
			a := intn(rt, len(c.D.Opts), "oa")
			b := (a + 1 + intn(rt, len(c.D.Opts)-1, "ob")) % len(c.D.Opts)
			p := intn(rt, len(head)+1, "insat")
			head = append(head[:p:p], append([]Item{g.optItem(a), g.optItem(b)}, head[p:]...)...)
			for i := range head {
				if head[i].Opt >= 0 && !c.D.Opts[head[i].Opt].Bool && (head[i].Val == "" || head[i].Val[0] == '-' || head[i].Val[0] == '=') {
					head[i].Val = "v"
				}
			}
			cand = []int{p}
		}
		p := cand[intn(rt, len(cand), "swapat")]
		sw := append([]Item{}, head...)
		sw[p], sw[p+1] = sw[p+1], sw[p]
		c.Items = head
		c.A = SpellHeadTail(rt, c.D, head, tailToks)
		c.B = SpellHeadTail(rt, c.D, sw, tailToks)
		// non-trivial when the token count differs from the item count in either spelling (some occurrence spans two
		// tokens or sits in a fold) and the pair itself holds a valued option or two short-named ones (foldable)
		pairInteresting := !c.D.Opts[head[p].Opt].Bool || !c.D.Opts[head[p+1].Opt].Bool ||
			(c.D.Opts[head[p].Opt].ShortName() != "" && c.D.Opts[head[p+1].Opt].ShortName() != "")
		if pairInteresting && (len(c.A) != len(head)+len(tailToks) || len(c.B) != len(sw)+len(tailToks)) {
			c.Note = "two-token-or-fold"
		}
		Report(rt, "C11", "swap", c, CheckC11(c, st))
	})
}

func genEnvSets(rt *rapid.T, n int) [][]int {
	var sets [][]int
	if n <= 4 {
		for m := 1; m < 1<<n; m++ {
			var s []int
			for i := 0; i < n; i++ {
				if m&(1<<i) != 0 {
					s = append(s, i)
				}
			}
			sets = append(sets, s)
		}
		return sets
	}
	for k := 0; k < 8; k++ {
		var s []int
		for i := 0; i < n; i++ {
			if chance(rt, 1, 3, "inE") {
				s = append(s, i)
			}
		}
		if len(s) > 0 {
			sets = append(sets, s)
		}
	}
	return sets
}

func TestC12(t *testing.T) {
	st := StatsFor("C12")
	FaithfulString = true
	cfg := GenCfg{Depth: 3, Env: false, DD: true}
	rapid.Check(t, func(rt *rapid.T) {
		p := GenProgram(rt, cfg)
		for i := range p.D.Opts {
			// the valid environment value of a flag may be false: "given by the environment" all the same
			if p.D.Opts[i].Bool && chance(rt, 1, 3, "falseenv") {
				p.D.Opts[i].EnvVal = rapid.SampledFrom([]string{"false", "0", "F"}).Draw(rt, "falseenvval")
			}
		}
		c := &MetaCase{Program: p}
		// sample the sentence with a random subset marked env-backed so that env-backed options get omitted
		hint := withEnv(p.D, genEnvSetsOne(rt, len(p.D.Opts)))
		c.Items = SampleItems(rt, hint, p.AST, cfg)
		c.A = SpellX(rt, p.D, c.Items, chance(rt, 1, 3, "foldeq"))
		if chance(rt, 1, 2, "mutate") {
			c.A = MutateArgv(rt, c.A)
		}
		c.EnvSets = genEnvSets(rt, len(p.D.Opts))
		Report(rt, "C12", "envmono", c, CheckC12(c, st))
	})
}

func genEnvSetsOne(rt *rapid.T, n int) []int {
	var s []int
	for i := 0; i < n; i++ {
		if chance(rt, 1, 3, "hintE") {
			s = append(s, i)
		}
	}
	return s
}

func TestC09Transparency(t *testing.T) {
	st := StatsFor("C09")
	cfg := GenCfg{Depth: 3, Env: false, DD: false, Exotic: true}
	rapid.Check(t, func(rt *rapid.T) {
		p := GenProgram(rt, cfg)
		argv, src := GenArgv(rt, p.D, p.AST, cfg)
		c := &MetaCase{Program: p, A: argv, Note: src}
		Report(rt, "C09", "transparency", c, CheckC09Transparency(c, st))
	})
}

var tailPool = []string{"x", "y", "-", "-a", "-z", "--all", "--zzz", "-o", "--out=v", "-ab", "--", "1", "-1", "a=b", "-o=", "---", "-=", "--out", " x ", "y\t", " -a", "-b ", ""}

func TestC09Tail(t *testing.T) {
	st := StatsFor("C09")
	rapid.Check(t, func(rt *rapid.T) {
		d := GenDecls(rt, GenCfg{})
		if len(d.Args) < 2 {
			d.Args = append(d.Args, ArgDecl{Name: argNamePool[len(d.Args)]})
		}
		// P: options only
		g := &specGen{t: rt, d: d, cfg: GenCfg{}}
		var optsOnly func(depth int) *Node
		optsOnly = func(depth int) *Node {
			if depth <= 0 || chance(rt, 1, 2, "pleaf") {
				for {
					n := g.atom()
					if n.Kind == KOpt || n.Kind == KGroup {
						return n
					}
				}
			}
			switch intn(rt, 4, "pop") {
			case 0:
				return &Node{Kind: KSeq, Kids: []*Node{optsOnly(depth - 1), optsOnly(depth - 1)}}
			case 1:
				return &Node{Kind: KChoice, Kids: []*Node{optsOnly(depth - 1), optsOnly(depth - 1)}}
			case 2:
				return &Node{Kind: KOptional, Kids: []*Node{optsOnly(depth - 1)}}
			default:
				return &Node{Kind: KRep, Kids: []*Node{optsOnly(depth - 1)}}
			}
		}
		P := optsOnly(2)
		kind := intn(rt, 5, "tkind")
		T := tailPattern(kind)
		// the spec-level -- is mandatory ("P -- T") or optional ("P [--] T"): in both cases it is what lets the tail's
		// dash-prefixed tokens through
		ddNode := &Node{Kind: KDD}
		if chance(rt, 1, 3, "optionaldd") {
			ddNode = &Node{Kind: KOptional, Kids: []*Node{{Kind: KDD}}}
		}
		astDD := &Node{Kind: KSeq, Kids: []*Node{P, ddNode, T}}
		astPlain := &Node{Kind: KSeq, Kids: []*Node{P, T}}
		c := &MetaCase{Program: Program{D: d, AST: astDD, SpecStr: astDD.Render(d)}, ASTB: astPlain, SpecB: astPlain.Render(d), TKind: kind}
		c.A = Spell(rt, d, SampleItems(rt, d, P, GenCfg{}))
		n := rapid.IntRange(0, 4).Draw(rt, "ntail")
		if kind == 3 && chance(rt, 2, 3, "fit") {
			n = 2
		}
		explicit := chance(rt, 1, 3, "explicit")
		optionalDD := ddNode.Kind == KOptional
		if optionalDD {
			// with "[--]" a "--" on the command line could equally be the command line's own end-of-options marker
			// (bound to nothing) on the derivation that skips the spec's: keep such tails "--"-free
			explicit = false
		}
		var tail []string
		if explicit {
			tail = append(tail, "--")
		}
		for i := 0; i < n; i++ {
			if i == 0 && !explicit {
				tail = append(tail, rapid.SampledFrom([]string{"x", "y", "1", "a=b", "é"}).Draw(rt, "t0"))
				continue
			}
			tk := rapid.SampledFrom(tailPool).Draw(rt, "tk")
			if optionalDD && tk == "--" {
				tk = "-x"
			}
			if explicit && chance(rt, 1, 8, "helpdata") {
				tk = rapid.SampledFrom([]string{"-h", "--help"}).Draw(rt, "h")
			}
			tail = append(tail, tk)
		}
		c.Tail = tail
		Report(rt, "C09", "tail", c, CheckC09Tail(c, st))
	})
}

// TestC09DoubleDD: specs with TWO spec-level "--" (the README's "[-- CMD [ARG...]]" shape followed by another "--"):
// each must act as if a "--" were written at that position of the command line, whatever optional groups were skipped.
// The oracle is the reference semantics (verdict and bindings), as in C01/C02.
func TestC09DoubleDD(t *testing.T) {
	st := StatsFor("C09")
	rapid.Check(t, func(rt *rapid.T) {
		d := GenDecls(rt, GenCfg{})
		for len(d.Args) < 3 {
			d.Args = append(d.Args, ArgDecl{Name: argNamePool[len(d.Args)]})
		}
		x, y, z := &Node{Kind: KArg, Arg: 0}, &Node{Kind: KArg, Arg: 1}, &Node{Kind: KArg, Arg: 2}
		ddn := func() *Node { return &Node{Kind: KDD} }
		opt := func(k *Node) *Node { return &Node{Kind: KOptional, Kids: []*Node{k}} }
		rep := func(k *Node) *Node { return &Node{Kind: KRep, Kids: []*Node{k}} }
		seq := func(k ...*Node) *Node { return &Node{Kind: KSeq, Kids: k} }
		var P *Node
		if chance(rt, 2, 3, "haveP") {
			var cand []int
			for i, o := range d.Opts {
				if !o.OnlyViaOptions {
					cand = append(cand, i)
				}
			}
			P = opt(&Node{Kind: KOpt, Opt: cand[intn(rt, len(cand), "popt")]})
		}
		var body *Node
		switch intn(rt, 4, "ddshape") {
		case 0:
			body = seq(opt(seq(ddn(), x, opt(rep(y)))), ddn(), rep(z))
		case 1:
			body = seq(opt(seq(ddn(), x)), opt(seq(ddn(), y)), rep(z))
		case 2:
			body = seq(opt(seq(ddn(), x, opt(y))), opt(ddn()), rep(z))
		default:
			body = seq(opt(seq(ddn(), opt(x))), ddn(), opt(y), rep(z))
		}
		ast := body
		if P != nil {
			ast = seq(P, body)
		}
		cfg := GenCfg{Exotic: true}
		items := SampleItems(rt, d, ast, cfg)
		argv := Spell(rt, d, items)
		// dash-prefixed tokens where a spec-level -- would have to let them through
		for i, n := 0, rapid.IntRange(0, 3).Draw(rt, "ndash"); i < n; i++ {
			p := intn(rt, len(argv)+1, "dashat")
			tk := rapid.SampledFrom([]string{"-x", "-a", "--foo=bar", "-", "--", "-1", "--all"}).Draw(rt, "dashtok")
			argv = append(argv[:p:p], append([]string{tk}, argv[p:]...)...)
		}
		c := &ParseCase{Program: Program{D: d, AST: ast, SpecStr: ast.Render(d)}, Argv: argv, Source: "double-dd"}
		Report(rt, "C09", "parse", c, CheckC09Parse(c, st))
	})
}
