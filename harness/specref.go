package vh

import (
	"regexp"
)

// Independent recogniser for spec strings (C08 oracle prototype).

type STok struct {
	Typ  string // Arg Options Short Seq Long DD Value Rep ( ) [ ] |
	Text string
	Pos  int
}

type SpecErr struct {
	Lo, Hi int // region of the first offending lexeme/token (a scan from the left reports this one)
	Msg    string
	// Also lists the regions of every other token that is offending in its own right (an undeclared name, an option
	// after --, the first syntax error among the tokens before a lexical error): an implementation that validates in
	// another order may legitimately point at one of those.
	Also [][2]int
}

// Admits reports whether pos points at an offending token.
func (e *SpecErr) Admits(pos int) bool {
	if pos >= e.Lo && pos <= e.Hi {
		return true
	}
	for _, r := range e.Also {
		if pos >= r[0] && pos <= r[1] {
			return true
		}
	}
	return false
}

var (
	reBlank = regexp.MustCompile(`^[ \t]+`)
	reRep   = regexp.MustCompile(`^\.\.\.`)
	reLong  = regexp.MustCompile(`^--[A-Za-z0-9_][A-Za-z0-9_-]*`)
	reShort = regexp.MustCompile(`^-[A-Za-z]+`)
	reValue = regexp.MustCompile(`^=<[^>]+>`)
	reArg   = regexp.MustCompile(`^[A-Z][A-Z0-9_]*`)
)

// SpecTokenize is the lexical half of the independent spec recogniser (written from the statement of C08).
func SpecTokenize(s string) ([]STok, *SpecErr) {
	var out []STok
	pos := 0
	for pos < len(s) {
		rest := s[pos:]
		if m := reBlank.FindString(rest); m != "" {
			pos += len(m)
			continue
		}
		switch rest[0] {
		case '[', ']', '(', ')', '|':
			out = append(out, STok{string(rest[0]), string(rest[0]), pos})
			pos++
			continue
		case '.':
			if reRep.MatchString(rest) {
				out = append(out, STok{"Rep", "...", pos})
				pos += 3
				continue
			}
			// one or two dots then something else
			n := 1
			if len(rest) > 1 && rest[1] == '.' {
				n = 2
			}
			return out, &SpecErr{Lo: pos, Hi: pos + n, Msg: "bad dots"}
		case '=':
			if m := reValue.FindString(rest); m != "" {
				out = append(out, STok{"Value", m, pos})
				pos += len(m)
				continue
			}
			return out, &SpecErr{Lo: pos, Hi: len(s), Msg: "bad value annotation"}
		case '-':
			if m := reLong.FindString(rest); m != "" {
				out = append(out, STok{"Long", m, pos})
				pos += len(m)
				continue
			}
			if m := reShort.FindString(rest); m != "" {
				typ := "Short"
				if len(m) > 2 {
					typ = "Seq"
				}
				out = append(out, STok{typ, m, pos})
				pos += len(m)
				if pos < len(s) && s[pos] == '-' {
					return out, &SpecErr{Lo: pos - len(m), Hi: pos + 1, Msg: "dash glued to option"}
				}
				continue
			}
			if len(rest) >= 2 && rest[1] == '-' {
				// "--" not followed by a long name
				if len(rest) >= 3 && rest[2] == '-' {
					return out, &SpecErr{Lo: pos, Hi: pos + 3, Msg: "---"}
				}
				out = append(out, STok{"DD", "--", pos})
				pos += 2
				continue
			}
			// dangling dash
			return out, &SpecErr{Lo: pos, Hi: pos + 1, Msg: "dangling dash"}
		}
		if m := reArg.FindString(rest); m != "" {
			typ := "Arg"
			if m == "OPTIONS" {
				typ = "Options"
			}
			out = append(out, STok{typ, m, pos})
			pos += len(m)
			continue
		}
		return out, &SpecErr{Lo: pos, Hi: pos + 1, Msg: "unexpected character"}
	}
	return out, nil
}

type specParser struct {
	toks     []STok
	i        int
	n        int // len(spec)
	declared func(name string) bool
	ddSeen   bool
}

func (p *specParser) peek() string {
	if p.i >= len(p.toks) {
		return ""
	}
	return p.toks[p.i].Typ
}

func (p *specParser) errHere(msg string) *SpecErr {
	if p.i >= len(p.toks) {
		return &SpecErr{Lo: p.n, Hi: p.n, Msg: msg}
	}
	t := p.toks[p.i]
	return &SpecErr{Lo: t.Pos, Hi: t.Pos + len(t.Text), Msg: msg}
}

func startsAtom(t string) bool {
	switch t {
	case "Arg", "Options", "Short", "Seq", "Long", "DD", "(", "[":
		return true
	}
	return false
}

func (p *specParser) seq(required bool) *SpecErr {
	if required {
		if e := p.choice(); e != nil {
			return e
		}
	}
	for startsAtom(p.peek()) {
		if e := p.choice(); e != nil {
			return e
		}
	}
	return nil
}

func (p *specParser) choice() *SpecErr {
	if e := p.atom(); e != nil {
		return e
	}
	for p.peek() == "|" {
		p.i++
		if e := p.atom(); e != nil {
			return e
		}
	}
	return nil
}

func (p *specParser) atom() *SpecErr {
	t := p.peek()
	switch t {
	case "Arg":
		if !p.declared(p.toks[p.i].Text) {
			return p.errHere("undeclared arg")
		}
		p.i++
	case "Options":
		if p.ddSeen {
			return p.errHere("option after --")
		}
		p.i++
	case "Short", "Long":
		if p.ddSeen {
			return p.errHere("option after --")
		}
		if !p.declared(p.toks[p.i].Text) {
			return p.errHere("undeclared option")
		}
		p.i++
		if p.peek() == "Value" {
			p.i++
		}
	case "Seq":
		if p.ddSeen {
			return p.errHere("option after --")
		}
		for _, c := range p.toks[p.i].Text[1:] {
			if !p.declared("-" + string(c)) {
				return p.errHere("undeclared option in sequence")
			}
		}
		p.i++
	case "(", "[":
		closer := ")"
		if t == "[" {
			closer = "]"
		}
		open := p.toks[p.i]
		openRegion := [2]int{open.Pos, open.Pos + len(open.Text)}
		p.i++
		first := p.i
		if e := p.seq(true); e != nil {
			if p.i == first && e.Lo >= openRegion[1] && (p.i >= len(p.toks) || !startsAtom(p.toks[p.i].Typ)) {
				// nothing usable follows the opener (empty or dangling bracket): the opener is as offending as what follows it
				e.Also = append(e.Also, openRegion)
			}
			return e
		}
		if p.peek() != closer {
			e := p.errHere("expected closer")
			e.Also = append(e.Also, openRegion) // an unbalanced bracket may be reported at the opener or where the closer is missing
			return e
		}
		p.i++
	case "DD":
		p.ddSeen = true
		p.i++
		return nil // no repetition after --
	default:
		return p.errHere("expected an atom")
	}
	if p.peek() == "Rep" {
		p.i++
	}
	return nil
}

// SpecCheck returns nil if the spec is well-formed, otherwise the region where the error must be reported.
func SpecCheck(s string, declared func(string) bool) ([]STok, *SpecErr) {
	toks, lexErr := SpecTokenize(s)
	p := &specParser{toks: toks, n: len(s), declared: declared}
	var synErr *SpecErr
	if e := p.seq(false); e != nil {
		synErr = e
	} else if p.i < len(toks) {
		synErr = p.errHere("trailing input")
	}
	if lexErr == nil && synErr == nil {
		return toks, nil
	}
	var first *SpecErr
	var also [][2]int
	if lexErr != nil {
		first = lexErr
		// a syntax error at a real token lexed before the lexical error is an offending token too
		// (one that is only due to the token list being cut short is not)
		if synErr != nil && synErr.Lo < len(s) && synErr.Lo < lexErr.Lo {
			also = append(also, [2]int{synErr.Lo, synErr.Hi})
		}
	} else {
		first = synErr
	}
	// tokens that are offending whatever precedes them
	dd := false
	for _, tk := range toks {
		bad := false
		switch tk.Typ {
		case "Arg":
			bad = !declared(tk.Text)
		case "Short", "Long":
			bad = dd || !declared(tk.Text)
		case "Options":
			bad = dd
		case "Seq":
			bad = dd
			for _, c := range tk.Text[1:] {
				if !declared("-" + string(c)) {
					bad = true
				}
			}
		case "DD":
			dd = true
		}
		if bad {
			also = append(also, [2]int{tk.Pos, tk.Pos + len(tk.Text)})
		}
	}
	e := *first
	e.Also = also
	if lexErr != nil {
		return nil, &e
	}
	return toks, &e
}
