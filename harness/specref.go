package vh

import (
	"regexp"
)

// Independent recogniser for spec strings (C08 oracle prototype).

type STok struct {
	Typ  string // Arg Options Short Seq Long DD Value Rep ( ) [ ] |
	Text string
	Pos  int
}

type SpecErr struct {
	Lo, Hi int // the error position must lie within [Lo, Hi]
	Msg    string
}

var (
	reBlank = regexp.MustCompile(`^[ \t]+`)
	reRep   = regexp.MustCompile(`^\.\.\.`)
	reLong  = regexp.MustCompile(`^--[A-Za-z0-9_][A-Za-z0-9_-]*`)
	reShort = regexp.MustCompile(`^-[A-Za-z]+`)
	reValue = regexp.MustCompile(`^=<[^>]+>`)
	reArg   = regexp.MustCompile(`^[A-Z][A-Z0-9_]*`)
)

// SpecTokenize is the lexical half of the independent spec recogniser (written from the statement of C08).
func SpecTokenize(s string) ([]STok, *SpecErr) {
	var out []STok
	pos := 0
	for pos < len(s) {
		rest := s[pos:]
		if m := reBlank.FindString(rest); m != "" {
			pos += len(m)
			continue
		}
		switch rest[0] {
		case '[', ']', '(', ')', '|':
			out = append(out, STok{string(rest[0]), string(rest[0]), pos})
			pos++
			continue
		case '.':
			if reRep.MatchString(rest) {
				out = append(out, STok{"Rep", "...", pos})
				pos += 3
				continue
			}
			// one or two dots then something else
			n := 1
			if len(rest) > 1 && rest[1] == '.' {
				n = 2
			}
			return nil, &SpecErr{pos, pos + n, "bad dots"}
		case '=':
			if m := reValue.FindString(rest); m != "" {
				out = append(out, STok{"Value", m, pos})
				pos += len(m)
				continue
			}
			return nil, &SpecErr{pos, len(s), "bad value annotation"}
		case '-':
			if m := reLong.FindString(rest); m != "" {
				out = append(out, STok{"Long", m, pos})
				pos += len(m)
				continue
			}
			if m := reShort.FindString(rest); m != "" {
				typ := "Short"
				if len(m) > 2 {
					typ = "Seq"
				}
				out = append(out, STok{typ, m, pos})
				pos += len(m)
				if pos < len(s) && s[pos] == '-' {
					return nil, &SpecErr{pos - len(m), pos + 1, "dash glued to option"}
				}
				continue
			}
			if len(rest) >= 2 && rest[1] == '-' {
				// "--" not followed by a long name
				if len(rest) >= 3 && rest[2] == '-' {
					return nil, &SpecErr{pos, pos + 3, "---"}
				}
				out = append(out, STok{"DD", "--", pos})
				pos += 2
				continue
			}
			// dangling dash
			return nil, &SpecErr{pos, pos + 1, "dangling dash"}
		}
		if m := reArg.FindString(rest); m != "" {
			typ := "Arg"
			if m == "OPTIONS" {
				typ = "Options"
			}
			out = append(out, STok{typ, m, pos})
			pos += len(m)
			continue
		}
		return nil, &SpecErr{pos, pos + 1, "unexpected character"}
	}
	return out, nil
}

type specParser struct {
	toks     []STok
	i        int
	n        int // len(spec)
	declared func(name string) bool
	ddSeen   bool
}

func (p *specParser) peek() string {
	if p.i >= len(p.toks) {
		return ""
	}
	return p.toks[p.i].Typ
}

func (p *specParser) errHere(msg string) *SpecErr {
	if p.i >= len(p.toks) {
		return &SpecErr{p.n, p.n, msg}
	}
	t := p.toks[p.i]
	return &SpecErr{t.Pos, t.Pos + len(t.Text), msg}
}

func startsAtom(t string) bool {
	switch t {
	case "Arg", "Options", "Short", "Seq", "Long", "DD", "(", "[":
		return true
	}
	return false
}

func (p *specParser) seq(required bool) *SpecErr {
	if required {
		if e := p.choice(); e != nil {
			return e
		}
	}
	for startsAtom(p.peek()) {
		if e := p.choice(); e != nil {
			return e
		}
	}
	return nil
}

func (p *specParser) choice() *SpecErr {
	if e := p.atom(); e != nil {
		return e
	}
	for p.peek() == "|" {
		p.i++
		if e := p.atom(); e != nil {
			return e
		}
	}
	return nil
}

func (p *specParser) atom() *SpecErr {
	t := p.peek()
	switch t {
	case "Arg":
		if !p.declared(p.toks[p.i].Text) {
			return p.errHere("undeclared arg")
		}
		p.i++
	case "Options":
		if p.ddSeen {
			return p.errHere("option after --")
		}
		p.i++
	case "Short", "Long":
		if p.ddSeen {
			return p.errHere("option after --")
		}
		if !p.declared(p.toks[p.i].Text) {
			return p.errHere("undeclared option")
		}
		p.i++
		if p.peek() == "Value" {
			p.i++
		}
	case "Seq":
		if p.ddSeen {
			return p.errHere("option after --")
		}
		for _, c := range p.toks[p.i].Text[1:] {
			if !p.declared("-" + string(c)) {
				return p.errHere("undeclared option in sequence")
			}
		}
		p.i++
	case "(", "[":
		closer := ")"
		if t == "[" {
			closer = "]"
		}
		p.i++
		if e := p.seq(true); e != nil {
			return e
		}
		if p.peek() != closer {
			return p.errHere("expected closer")
		}
		p.i++
	case "DD":
		p.ddSeen = true
		p.i++
		return nil // no repetition after --
	default:
		return p.errHere("expected an atom")
	}
	if p.peek() == "Rep" {
		p.i++
	}
	return nil
}

// SpecCheck returns nil if the spec is well-formed, otherwise the region where the error must be reported.
func SpecCheck(s string, declared func(string) bool) ([]STok, *SpecErr) {
	toks, e := SpecTokenize(s)
	if e != nil {
		return nil, e
	}
	p := &specParser{toks: toks, n: len(s), declared: declared}
	if e := p.seq(false); e != nil {
		return toks, e
	}
	if p.i < len(toks) {
		return toks, p.errHere("trailing input")
	}
	return toks, nil
}
