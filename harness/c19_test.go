package vh

import (
	"strings"
	"testing"

	"pgregory.net/rapid"
)

func genCType(rt *rapid.T, forceValued bool) CType {
	ct := CType{HasBool: chance(rt, 1, 2, "hasB"), BoolResult: chance(rt, 2, 3, "boolres"), HasClear: chance(rt, 1, 2, "hasC"), HasDefault: chance(rt, 1, 2, "hasD")}
	if chance(rt, 1, 5, "otherkind") {
		ct.Kind = 1 + intn(rt, 2, "kind")
		ct.HasBool, ct.HasClear, ct.HasDefault = true, true, true
		st := StatsFor("C19")
		st.Class("type:map-or-slice-struct-kind-by-value")
	}
	if forceValued {
		if ct.Kind != 0 {
			ct.BoolResult = false
		}
		ct.HasBool = ct.HasBool && !ct.BoolResult
	}
	if chance(rt, 1, 4, "fails") {
		ct.FailOn = rapid.SampledFrom([]string{"v", "x", "true", "e1", "7"}).Draw(rt, "failon")
	}
	if chance(rt, 1, 3, "hasenv") {
		for i, n := 0, rapid.IntRange(1, 2).Draw(rt, "nenv"); i < n; i++ {
			ct.Env = append(ct.Env, rapid.SampledFrom([]string{"", "e1", "e1,e2", " e1 , x ", "true", "v", "7,,8"}).Draw(rt, "envval"))
		}
	}
	return ct
}

func TestC19(t *testing.T) {
	st := StatsFor("C19")
	cfg := GenCfg{Depth: 2, Env: false, DD: true, Exotic: true}
	rapid.Check(t, func(rt *rapid.T) {
		d := GenDecls(rt, cfg)
		c := &ProtoCase{}
		for i := range d.Opts {
			ct := genCType(rt, false)
			c.OptTypes = append(c.OptTypes, ct)
			// the declared flag-ness follows the type
			d.Opts[i].Bool = ct.HasBool && ct.BoolResult
		}
		for range d.Args {
			ct := genCType(rt, true)
			if ct.Kind == 0 {
				ct.HasBool = false
			}
			c.ArgTypes = append(c.ArgTypes, ct)
		}
		var ast *Node
		switch intn(rt, 4, "specshape") {
		case 0:
			ast = &Node{Kind: KSeq, Kids: []*Node{{Kind: KOptional, Kids: []*Node{{Kind: KGroup, Group: allIdx(len(d.Opts)), AllOpts: true}}}, {Kind: KRep, Kids: []*Node{{Kind: KArg, Arg: 0}}}}}
		case 1:
			ast = &Node{Kind: KSeq, Kids: []*Node{{Kind: KRep, Kids: []*Node{{Kind: KOpt, Opt: 0}}}, {Kind: KArg, Arg: 0}}}
		default:
			ast = GenSpec(rt, d, cfg)
		}
		c.Program = Program{D: d, AST: ast, SpecStr: ast.Render(d)}
		// sample against the effective declarations (env-backed options may be omitted)
		eff := &Decls{Args: d.Args}
		for i, o := range d.Opts {
			_, fromEnv := expectedDeclOps("x", c.OptTypes[i])
			o.Env = fromEnv
			eff.Opts = append(eff.Opts, o)
		}
		c.Argv, _ = GenArgv(rt, eff, ast, cfg)
		for i, a := range c.Argv {
			if a == "--" {
				break
			}
			// "-f=true" / "--flag=true" of a flag-like custom type: any other literal must reach Set just as it was written
			if k := strings.Index(a, "=true"); k > 1 && k+5 == len(a) && d.Lookup(a[:k]) >= 0 && d.Opts[d.Lookup(a[:k])].Bool && chance(rt, 1, 2, "boolliteral") {
				c.Argv[i] = a[:k+1] + rapid.SampledFrom([]string{"1", "0", "false", "T", "f", "TRUE", "yes"}).Draw(rt, "literal")
				st.Class("argv:flag-given-an-explicit-literal-other-than-true")
			}
		}
		for i, a := range c.Argv {
			if strings.ContainsRune(a, 0) {
				c.Argv[i] = "x"
			}
		}
		Report(rt, "C19", "protocol", c, CheckC19(c, st))
	})
}
