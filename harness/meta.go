package vh

import (
	"encoding/json"
	"reflect"
	"strings"

	"pgregory.net/rapid"
)

// ---------------------------------------------------------------------------------------------
// item level generation shared by C10 / C11
// ---------------------------------------------------------------------------------------------

// c10Values: non-empty; a value starting with '-' is never spelled in the separate form, one starting with '=' never in
// the attached form (the precondition of C10; Spell enforces it).
var c10Values = []string{"v", "w", "7", "x", "a", "b", "true", "v=w", "é", "o", "%d", "50%", "a b", "-x", "-1", "--", "-", "=x", "=", "-a"}

// MutateItems applies 0-2 item level mutations (drop, duplicate, insert, swap).
func MutateItems(t *rapid.T, d *Decls, items []Item) []Item {
	n := intn(t, 3, "nimut")
	for i := 0; i < n; i++ {
		switch intn(t, 4, "imut") {
		case 0:
			if len(items) > 0 {
				p := intn(t, len(items), "at")
				items = append(items[:p:p], items[p+1:]...)
			}
		case 1:
			if len(items) > 0 {
				p := intn(t, len(items), "at")
				items = append(items[:p:p], append([]Item{items[p]}, items[p:]...)...)
			}
		case 2:
			p := intn(t, len(items)+1, "at")
			var it Item
			if chance(t, 1, 2, "insopt") {
				o := intn(t, len(d.Opts), "o")
				it = Item{Opt: o, Val: "true"}
				if !d.Opts[o].Bool {
					it.Val = rapid.SampledFrom(c10Values).Draw(t, "val")
				}
			} else {
				it = Item{Opt: -1, Pos: rapid.SampledFrom([]string{"x", "-", "--", "q"}).Draw(t, "pos")}
			}
			items = append(items[:p:p], append([]Item{it}, items[p:]...)...)
		case 3:
			if len(items) > 1 {
				p := intn(t, len(items)-1, "at")
				items = append([]Item{}, items...)
				items[p], items[p+1] = items[p+1], items[p]
			}
		}
	}
	return items
}

// splitAtDD splits items at the first "--" positional: the head is respelled, the tail is data.
func splitAtDD(items []Item) (head, tail []Item) {
	for i, it := range items {
		if it.Opt < 0 && it.Pos == "--" {
			return items[:i], items[i:]
		}
	}
	return items, nil
}

// SpellHeadTail spells the head with random documented spellings and appends the fixed tail tokens.
func SpellHeadTail(t *rapid.T, d *Decls, head []Item, tailToks []string) []string {
	out := Spell(t, d, head)
	return append(out, tailToks...)
}

// MetaCase is the case type of the metamorphic checks C09-C12: one program and two (or more) argument vectors.
type MetaCase struct {
	Program
	Items []Item     `json:"items,omitempty"`
	A     []string   `json:"a"`
	B     []string   `json:"b,omitempty"`
	More  [][]string `json:"more,omitempty"`
	Note  string     `json:"note,omitempty"`
	// C12
	EnvSets [][]int `json:"env_sets,omitempty"`
	// C09 tail relations
	SpecB string   `json:"spec_b,omitempty"`
	ASTB  *Node    `json:"ast_b,omitempty"`
	Tail  []string `json:"tail,omitempty"`
	TKind int      `json:"tkind,omitempty"`
}

// Key identifies the case.
func (c *MetaCase) Key() string {
	b, _ := json.Marshal(c.EnvSets)
	return FmtDecls(c.D) + "\x00" + c.SpecStr + "\x00" + strings.Join(c.A, "\x01") + "\x00" + strings.Join(c.B, "\x01") + "\x00" + c.SpecB + string(b)
}

// Brief is the evidence sample.
func (c *MetaCase) Brief() interface{} {
	m := map[string]interface{}{"decls": FmtDecls(c.D), "spec": c.SpecStr, "a": c.A}
	if c.B != nil {
		m["b"] = c.B
	}
	if c.SpecB != "" {
		m["spec_b"] = c.SpecB
	}
	if c.EnvSets != nil {
		m["env_sets"] = c.EnvSets
	}
	if c.Note != "" {
		m["note"] = c.Note
	}
	return m
}

func sameOutcome(a, b *Outcome) bool {
	if a.Accept != b.Accept || a.HasErr != b.HasErr || (a.Panic != "") != (b.Panic != "") {
		return false
	}
	if !a.Accept {
		return true
	}
	return reflect.DeepEqual(normBind(a.Bind), normBind(b.Bind)) && reflect.DeepEqual(normBind(a.Raw), normBind(b.Raw))
}

func describe(o *Outcome) string {
	if o.Panic != "" {
		return "panic(" + o.Panic + ")"
	}
	if !o.Accept {
		return "rejected(" + o.Err + ")"
	}
	return "accepted" + fmtBind(o.Bind)
}

// modelAgrees runs the C01 oracle as a bonus on a real outcome; unclaimed and known classes are skipped.
func modelAgrees(prop string, d *Decls, ast *Node, argv []string, out *Outcome, st *Stats) *Violation {
	cl := Classify(d, ast, argv)
	if cl.Unclaimed != "" {
		st.Class("model-unclaimed:" + cl.Unclaimed)
		return nil
	}
	if out.Accept != cl.Accept {
		if out.Accept == cl.Greedy && KnownClassAny(F3Class) {
			st.Class("model-known:" + F3Class)
			return nil
		}
		return Violf("both sides of the relation agree but contradict the reference semantics: library accept=%v, reference accept=%v; spec %q argv %q [%s]",
			out.Accept, cl.Accept, ast.Render(d), argv, FmtDecls(d))
	}
	return nil
}

// ---------------------------------------------------------------------------------------------
// C10: all documented spellings are interchangeable
// ---------------------------------------------------------------------------------------------

var metaCfg = GenCfg{Depth: 3, Env: true, DD: false}

// GenItemsCase draws a program without spec-level "--" and an item sequence (sentence, then item mutations).
func GenItemsCase(t *rapid.T) (*MetaCase, []Item, []string) { return GenItemsCaseWant(t, nil) }

// GenItemsCaseWant: when want is given, up to eight sentences of the program are sampled until one satisfies it, and
// that sentence is then left unmutated two times out of three (so that most cases are accepted command lines).
func GenItemsCaseWant(t *rapid.T, want func(head []Item) bool) (*MetaCase, []Item, []string) {
	p := GenProgram(t, metaCfg)
	g := &argvGen{t: t, d: p.D, cfg: metaCfg}
	var items []Item
	found := false
	for try := 0; try < 8 && !found; try++ {
		items = nil
		g.sample(p.AST, &items)
		if want == nil {
			break
		}
		h, _ := splitAtDD(items)
		found = want(h)
	}
	for i := range items {
		if items[i].Opt >= 0 && !p.D.Opts[items[i].Opt].Bool {
			items[i].Val = rapid.SampledFrom(c10Values).Draw(t, "c10val")
		}
	}
	if !found || chance(t, 1, 3, "mutateitems") {
		items = MutateItems(t, p.D, items)
	}
	head, tail := splitAtDD(items)
	var tailToks []string
	if len(tail) > 0 {
		tailToks = Spell(t, p.D, tail) // spelled once: after "--" these tokens are data
	}
	return &MetaCase{Program: p, Items: items}, head, tailToks
}

func hasFold(argv []string) bool {
	for _, a := range argv {
		if a == "--" {
			return false
		}
		if len(a) > 2 && a[0] == '-' && a[1] != '-' && a[2] != '=' {
			return true
		}
	}
	return false
}

func diffPositions(a, b []string) int {
	n := 0
	for i := 0; i < len(a) || i < len(b); i++ {
		if i >= len(a) || i >= len(b) || a[i] != b[i] {
			n++
		}
	}
	return n
}

// CheckC10 compares two spellings of the same item sequence.
func CheckC10(c *MetaCase, st *Stats) *Violation {
	st.Eval()
	Begin("C10", "respell", c)
	ra := RunReal(c.D, c.SpecStr, c.A)
	rb := RunReal(c.D, c.SpecStr, c.B)
	End()
	if ra.Panic != "" {
		return Violf("Run panicked (%s) on spec %q argv %q", ra.Panic, c.SpecStr, c.A)
	}
	if !sameOutcome(&ra, &rb) {
		return Violf("re-spelling changed the outcome: spec %q [%s]: %q -> %s ; %q -> %s", c.SpecStr, FmtDecls(c.D), c.A, describe(&ra), c.B, describe(&rb))
	}
	if v := modelAgrees("C10", c.D, c.AST, c.A, &ra, st); v != nil {
		// whether this command line is a sentence at all is C01's claim; C10 only relates the spellings to each other
		st.Class("deferred-to-C01")
	}
	if ra.Accept {
		st.Class("verdict:accept")
	} else {
		st.Class("verdict:reject")
	}
	if reflect.DeepEqual(c.A, c.B) {
		st.Class("same-spelling")
		return nil
	}
	st.Class("different-spelling")
	if diffPositions(c.A, c.B) >= 2 && (hasFold(c.A) || hasFold(c.B)) {
		st.NonTrivial(c.Key(), c.Brief)
	}
	return nil
}

// ---------------------------------------------------------------------------------------------
// C11: adjacent occurrences of different options commute
// ---------------------------------------------------------------------------------------------

// CheckC11 compares the item sequence with one adjacent pair of different options swapped.
func CheckC11(c *MetaCase, st *Stats) *Violation {
	st.Eval()
	Begin("C11", "swap", c)
	ra := RunReal(c.D, c.SpecStr, c.A)
	rb := RunReal(c.D, c.SpecStr, c.B)
	End()
	if ra.Panic != "" {
		return Violf("Run panicked (%s) on spec %q argv %q", ra.Panic, c.SpecStr, c.A)
	}
	if !sameOutcome(&ra, &rb) {
		return Violf("swapping two adjacent occurrences of different options changed the outcome: spec %q [%s]: %q -> %s ; %q -> %s",
			c.SpecStr, FmtDecls(c.D), c.A, describe(&ra), c.B, describe(&rb))
	}
	if v := modelAgrees("C11", c.D, c.AST, c.B, &rb, st); v != nil {
		st.Class("deferred-to-C01")
	}
	if ra.Accept {
		st.Class("verdict:accept")
	} else {
		st.Class("verdict:reject")
	}
	if c.Note == "two-token-or-fold" {
		st.Class("swap:two-token-or-fold")
		st.NonTrivial(c.Key(), c.Brief)
	}
	return nil
}

// ---------------------------------------------------------------------------------------------
// C12: an environment value only satisfies, never restricts
// ---------------------------------------------------------------------------------------------

func withEnv(d *Decls, set []int) *Decls {
	nd := &Decls{Args: d.Args}
	for i, o := range d.Opts {
		o.Env = false
		for _, e := range set {
			if e == i {
				o.Env = true
			}
		}
		nd.Opts = append(nd.Opts, o)
	}
	return nd
}

func optionBinds(d *Decls, b map[string][]string) map[string][]string {
	m := map[string][]string{}
	for i := range d.Opts {
		if v := b[d.OptKey(i)]; len(v) > 0 {
			m[d.OptKey(i)] = v
		}
	}
	return m
}

// CheckC12 runs the argv with no env-backed option and with each listed subset env-backed.
func CheckC12(c *MetaCase, st *Stats) *Violation {
	if HasHelpToken(c.A) {
		// a help request short-circuits parsing altogether (C14)
		st.Eval()
		st.Class("unclaimed:help-token")
		return nil
	}
	// "-ab=v" and "-f-..." are token shapes whose reading the reference semantics does not fix (DESIGN.md 3.4 b, e): the
	// model is not consulted for them, but C12 is a statement about ALL command lines and needs no model: the library is
	// compared with itself across environment settings
	shape := HasFoldEq(c.D, c.A) || HasDashResidue(c.D, c.A)
	base := withEnv(c.D, nil)
	Begin("C12", "envmono", c)
	r0 := RunReal(base, c.SpecStr, c.A)
	End()
	if r0.Panic != "" {
		return Violf("Run panicked (%s) on spec %q argv %q", r0.Panic, c.SpecStr, c.A)
	}
	hasDD := c.AST.HasKind(KDD)
	for _, set := range c.EnvSets {
		st.Eval()
		de := withEnv(c.D, set)
		Begin("C12", "envmono", c)
		r1 := RunReal(de, c.SpecStr, c.A)
		End()
		if r1.Panic != "" {
			return Violf("Run panicked (%s) with options %v env-backed; spec %q argv %q [%s]", r1.Panic, set, c.SpecStr, c.A, FmtDecls(de))
		}
		if r0.Accept && !r1.Accept {
			return Violf("accepted without environment values, rejected (%s) with options %v backed by a valid environment value; spec %q argv %q [%s]",
				r1.Err, set, c.SpecStr, c.A, FmtDecls(de))
		}
		if r0.Accept && r1.Accept && !hasDD {
			if b0, b1 := optionBinds(c.D, r0.Bind), optionBinds(c.D, r1.Bind); !reflect.DeepEqual(b0, b1) {
				if shape && KnownClass("C12", ClassF11) && foldEqValueReadingOnly(c.D, c.A, b0, b1) {
					st.Class("known:" + ClassF11)
					continue
				}
				return Violf("option values differ with options %v env-backed: %s vs %s; spec %q argv %q [%s]", set, fmtBind(b0), fmtBind(b1), c.SpecStr, c.A, FmtDecls(de))
			}
		}
		if shape {
			st.Class("token-shape:metamorphic-clauses-only")
			if r0.Accept {
				st.Class("token-shape:accepted-without-env")
			}
		} else if v := modelAgrees("C12", de, c.AST, c.A, &r1, st); v != nil {
			return v
		}
		switch {
		case r0.Accept:
			st.Class("both-accept")
		case r1.Accept:
			st.Class("env-enlarges")
		default:
			st.Class("both-reject")
		}
		if len(set) > 0 {
			// non-trivial: an env-backed option occurs 0 times (fallback usable) or >= 2 times on the command line
			nt := false
			for _, e := range set {
				n := 0
				for _, it := range c.Items {
					if it.Opt == e {
						n++
					}
				}
				if r1.Accept && (n == 0 || n >= 2) {
					nt = true
				}
			}
			if nt {
				b, _ := json.Marshal(set)
				st.NonTrivial(c.Key()+string(b), func() interface{} {
					m := c.Brief().(map[string]interface{})
					m["env_set"] = set
					return m
				})
			}
		}
	}
	return nil
}

// ClassF11 is the recorded finding: in a folded token "-<flags>o=v" the value of o is read as "=v" or as "v" depending
// on whether o's matcher looks at the token before or after the flags in front of it were taken out.
const ClassF11 = "F11-fold-eq-value-reading"

// foldEqValueReadingOnly: the two bindings differ only in options that occur as the valued member of such a token, and
// only by one leading "=" of their values.
func foldEqValueReadingOnly(d *Decls, argv []string, b0, b1 map[string][]string) bool {
	fe := map[string]bool{}
	for _, a := range argv {
		if a == "--" {
			break
		}
		if len(a) < 4 || a[0] != '-' || a[1] == '-' || a[2] == '=' {
			continue
		}
		for j := 1; j < len(a); j++ {
			o := d.Lookup("-" + a[j:j+1])
			if o < 0 {
				break
			}
			if !d.Opts[o].Bool {
				if j >= 2 && j+1 < len(a) && a[j+1] == '=' {
					fe[d.OptKey(o)] = true
				}
				break
			}
		}
	}
	keys := map[string]bool{}
	for k := range b0 {
		keys[k] = true
	}
	for k := range b1 {
		keys[k] = true
	}
	strip := func(s string) string { return strings.TrimPrefix(s, "=") }
	for k := range keys {
		v0, v1 := b0[k], b1[k]
		if reflect.DeepEqual(v0, v1) {
			continue
		}
		if !fe[k] || len(v0) != len(v1) {
			return false
		}
		for i := range v0 {
			if v0[i] != v1[i] && strip(v0[i]) != strip(v1[i]) {
				return false
			}
		}
	}
	return true
}

// ---------------------------------------------------------------------------------------------
// C09: "--" ends option parsing
// ---------------------------------------------------------------------------------------------

// ValueTokens marks the tokens that are the separate-form value of a declared valued option, by a
// spec-independent left-to-right lexing of argv (stops at the first "--").
func ValueTokens(d *Decls, argv []string) []bool {
	mark := make([]bool, len(argv))
	i := 0
	for i < len(argv) {
		t := argv[i]
		if t == "--" {
			break
		}
		if t == "-" || !strings.HasPrefix(t, "-") {
			i++
			continue
		}
		takesNext := false
		if strings.HasPrefix(t, "--") {
			if !strings.Contains(t, "=") {
				if o := d.Lookup(t); o >= 0 && !d.Opts[o].Bool {
					takesNext = true
				}
			}
		} else if !(len(t) >= 3 && t[2] == '=') {
			for j := 1; j < len(t); j++ {
				o := d.Lookup("-" + t[j:j+1])
				if o < 0 {
					break
				}
				if d.Opts[o].Bool {
					continue
				}
				if j == len(t)-1 {
					takesNext = true
				}
				break
			}
		}
		if takesNext && i+1 < len(argv) && !strings.HasPrefix(argv[i+1], "-") {
			mark[i+1] = true
			i += 2
			continue
		}
		i++
	}
	return mark
}

// TrailingBlockStart returns the index where the trailing block of non-dash positional tokens begins.
func TrailingBlockStart(d *Decls, argv []string) int {
	mark := ValueTokens(d, argv)
	s := len(argv)
	for s > 0 && !strings.HasPrefix(argv[s-1], "-") && !mark[s-1] {
		s--
	}
	return s
}

func insertAt(argv []string, p int, tok string) []string {
	out := make([]string, 0, len(argv)+1)
	out = append(out, argv[:p]...)
	out = append(out, tok)
	return append(out, argv[p:]...)
}

// CheckC09Transparency inserts "--" at every point of the trailing positional block.
func CheckC09Transparency(c *MetaCase, st *Stats) *Violation {
	for _, a := range c.A {
		if a == "--" {
			st.Eval()
			st.Class("skipped:argv-already-has-dd")
			return nil
		}
	}
	if HasDashResidue(c.D, c.A) || HasFoldEq(c.D, c.A) || HasHelpToken(c.A) {
		st.Eval()
		st.Class("skipped:unclaimed-token-shape")
		return nil
	}
	Begin("C09", "transparency", c)
	r0 := RunReal(c.D, c.SpecStr, c.A)
	End()
	if r0.Panic != "" {
		return Violf("Run panicked (%s) on spec %q argv %q", r0.Panic, c.SpecStr, c.A)
	}
	start := TrailingBlockStart(c.D, c.A)
	for p := start; p <= len(c.A); p++ {
		st.Eval()
		b := insertAt(c.A, p, "--")
		Begin("C09", "transparency", c)
		r1 := RunReal(c.D, c.SpecStr, b)
		End()
		if !sameOutcome(&r0, &r1) {
			return Violf("inserting -- at position %d of the trailing positional block changed the outcome: spec %q [%s]: %q -> %s ; %q -> %s",
				p, c.SpecStr, FmtDecls(c.D), c.A, describe(&r0), b, describe(&r1))
		}
		if v := modelAgrees("C09", c.D, c.AST, b, &r1, st); v != nil {
			return v
		}
		optsBefore := false
		for _, t := range c.A[:p] {
			if strings.HasPrefix(t, "-") && t != "-" {
				optsBefore = true
			}
		}
		if p == len(c.A) {
			st.Class("insert:very-end")
			if r0.Accept {
				st.Class("insert:very-end-accepted")
				st.NonTrivial(c.Key()+"\x00end", func() interface{} {
					m := c.Brief().(map[string]interface{})
					m["inserted_at"] = p
					return m
				})
			}
		} else if optsBefore {
			st.Class("insert:opts-before-tokens-after")
			st.NonTrivial(c.Key()+"\x00"+string(rune('a'+p)), func() interface{} {
				m := c.Brief().(map[string]interface{})
				m["inserted_at"] = p
				return m
			})
		}
		if r0.Accept {
			st.Class("verdict:accept")
		} else {
			st.Class("verdict:reject")
		}
	}
	return nil
}

// tailPatterns: argument patterns T with a known binding function over the tail tokens.
// kind 0: X...   kind 1: X [Y...]   kind 2: [X...]   kind 3: X Y
func tailPattern(kind int) *Node {
	x, y := &Node{Kind: KArg, Arg: 0}, &Node{Kind: KArg, Arg: 1}
	switch kind {
	case 0:
		return &Node{Kind: KRep, Kids: []*Node{x}}
	case 1:
		return &Node{Kind: KSeq, Kids: []*Node{x, {Kind: KOptional, Kids: []*Node{{Kind: KRep, Kids: []*Node{y}}}}}}
	case 2:
		return &Node{Kind: KOptional, Kids: []*Node{{Kind: KRep, Kids: []*Node{x}}}}
	case 4:
		// "X... Y": the parser has to backtrack (the last token belongs to Y) after options have ended
		return &Node{Kind: KSeq, Kids: []*Node{{Kind: KRep, Kids: []*Node{x}}, y}}
	default:
		return &Node{Kind: KSeq, Kids: []*Node{x, y}}
	}
}

func tailExpect(kind int, d *Decls, tail []string) (map[string][]string, bool) {
	x, y := d.ArgKey(0), d.ArgKey(1)
	m := map[string][]string{}
	switch kind {
	case 0:
		if len(tail) < 1 {
			return nil, false
		}
		m[x] = tail
	case 1:
		if len(tail) < 1 {
			return nil, false
		}
		m[x] = tail[:1]
		if len(tail) > 1 {
			m[y] = tail[1:]
		}
	case 2:
		if len(tail) > 0 {
			m[x] = tail
		}
	case 4:
		if len(tail) < 2 {
			return nil, false
		}
		m[x], m[y] = tail[:len(tail)-1], tail[len(tail)-1:]
	default:
		if len(tail) != 2 {
			return nil, false
		}
		m[x], m[y] = tail[:1], tail[1:]
	}
	return m, true
}

// CheckC09Tail: spec "P -- T" binds the tail verbatim and behaves like "P T" with "--" written on the command line.
func CheckC09Tail(c *MetaCase, st *Stats) *Violation {
	st.Eval()
	// c.A = sentence of P (options only); c.Tail = tail tokens; c.AST = P -- T, c.ASTB = P T
	argvSpecDD := append(append([]string{}, c.A...), c.Tail...)
	// claimed only if no derivation lets the spec-level -- fire while option occurrences of the run are unmatched (3.4c)
	probe := &Ref{D: c.D, Q: Quirks{KeepTainted: true}, TrackLoose: true}
	if pv := probe.Run(c.AST, argvSpecDD); pv.Exceeded || probe.TaintedAccept || probe.LooseAccept {
		st.Class("unclaimed:tainted")
		return nil
	}
	Begin("C09", "tail", c)
	r1 := RunReal(c.D, c.SpecStr, argvSpecDD)
	End()
	if r1.Panic != "" {
		return Violf("Run panicked (%s) on spec %q argv %q", r1.Panic, c.SpecStr, argvSpecDD)
	}
	tail := c.Tail
	explicit := len(tail) > 0 && tail[0] == "--"
	data := tail
	if explicit {
		data = tail[1:]
	}
	want, ok := tailExpect(c.TKind, c.D, data)
	pAccepts := Accepts(c.D, c.ASTB.Kids[0], c.A, Quirks{GreedyGroup: true})
	if !pAccepts {
		st.Class("skipped:prefix-not-a-sentence")
		return nil
	}
	if ok {
		if !r1.Accept {
			return Violf("spec %q must accept %q (tail %q goes verbatim to the arguments after --) but it was rejected: %s [%s]", c.SpecStr, argvSpecDD, data, r1.Err, FmtDecls(c.D))
		}
		got := map[string][]string{}
		for i := range c.D.Args {
			if v := r1.Bind[c.D.ArgKey(i)]; len(v) > 0 {
				got[c.D.ArgKey(i)] = v
			}
		}
		if !reflect.DeepEqual(got, want) {
			return Violf("tokens after the spec-level -- are not bound verbatim: spec %q argv %q: arguments %s, expected %s", c.SpecStr, argvSpecDD, fmtBind(got), fmtBind(want))
		}
		st.Class("tail:accepted-verbatim")
	} else if r1.Accept {
		return Violf("spec %q accepted %q although the tail %q does not fit the argument pattern", c.SpecStr, argvSpecDD, data)
	} else {
		st.Class("tail:rejected-wrong-arity")
	}
	// relation 3: spec-level -- == command-line -- at that position
	if !explicit {
		argvCmdDD := append(append(append([]string{}, c.A...), "--"), c.Tail...)
		Begin("C09", "tail", c)
		r2 := RunReal(c.D, c.SpecB, argvCmdDD)
		End()
		if !sameOutcome(&r1, &r2) {
			return Violf("a -- written in the spec does not act like one on the command line: (%q, %q) -> %s ; (%q, %q) -> %s [%s]",
				c.SpecStr, argvSpecDD, describe(&r1), c.SpecB, argvCmdDD, describe(&r2), FmtDecls(c.D))
		}
		st.Class("tail:spec-dd-equals-cmdline-dd")
	}
	if len(c.AST.Kids) == 3 && c.AST.Kids[1].Kind == KOptional {
		st.Class("tail:spec-dd-is-optional")
	}
	dashy := false
	for _, t := range data {
		if strings.HasPrefix(t, "-") {
			dashy = true
		}
	}
	if dashy {
		st.Class("tail:has-dash-prefixed-token")
		st.NonTrivial(c.Key()+"\x00"+strings.Join(c.Tail, "\x01"), func() interface{} {
			m := c.Brief().(map[string]interface{})
			m["tail"] = c.Tail
			return m
		})
	}
	return nil
}

func init() {
	reg := func(prop, kind string, f func(*MetaCase, *Stats) *Violation) {
		RegisterReplay(prop, kind, func(raw json.RawMessage) *Violation {
			var c MetaCase
			if err := json.Unmarshal(raw, &c); err != nil {
				return Violf("bad replay file: %v", err)
			}
			return f(&c, StatsFor(prop+".replay"))
		})
	}
	reg("C10", "respell", CheckC10)
	reg("C11", "swap", CheckC11)
	reg("C12", "envmono", CheckC12)
	reg("C09", "transparency", CheckC09Transparency)
	reg("C09", "tail", CheckC09Tail)
}
