package vh

import (
	"encoding/json"
	"flag"
	"fmt"
	"reflect"
	"strings"

	cli "github.com/jawher/mow.cli"
	"pgregory.net/rapid"
)

// TCmd is one command of a generated command tree.
type TCmd struct {
	Aliases   []string `json:"aliases,omitempty"`
	D         *Decls   `json:"decls"`
	AST       *Node    `json:"ast"`            // the effective spec (for an implicit spec: [OPTIONS] ARG1 ARG2 ...)
	Spec      string   `json:"spec,omitempty"` // "" = implicit
	Implicit  bool     `json:"implicit,omitempty"`
	Subs      []*TCmd  `json:"subs,omitempty"`
	Long      string   `json:"long"`
	Desc      string   `json:"desc"`
	HasAction bool     `json:"has_action"`
	// PolicyPlus1: 0 = the command does not set ErrorHandling (it inherits its parent's at declaration time),
	// otherwise policy+1 is assigned at the start of the command's initializer, before its sub commands are declared
	PolicyPlus1 int `json:"policy_plus1,omitempty"`
}

// Policies.
const (
	PolContinue = iota
	PolExit
	PolPanic
)

var policies = []flag.ErrorHandling{flag.ContinueOnError, flag.ExitOnError, flag.PanicOnError}

// BadToken makes every recorder of a tree case fail its Set: "a value not convertible to its type".
const BadToken = "BAD!"

// TreeCase is the case type of C04, C07 and C14.
type TreeCase struct {
	Root    *TCmd      `json:"root"`
	Policy  int        `json:"policy"`
	Path    []int      `json:"path"`   // index of the sub command taken at each level
	Alias   []int      `json:"alias"`  // which alias spells it
	Levels  [][]string `json:"levels"` // the tokens of each level, len(Path)+1 entries
	Version string     `json:"version,omitempty"`
	// VersionStr is the version string the app declares (default VersionString); it may contain '%'
	VersionStr string `json:"version_str,omitempty"`
	// DeclaresVersion: the app declares a version (flag names V / qversion) even though the case does not request it;
	// a sub command on the path then owns an option spelled the same way, which must stay an ordinary option there
	DeclaresVersion bool `json:"declares_version,omitempty"`
	// HelpLevel/HelpPos: where a help token was inserted (-1 = none); informational, the oracle re-derives it.
	HelpLevel int `json:"help_level"`
	// Warmup, when non-nil, is a first argument vector given to the SAME application object before Argv()
	// (only help requests are generated: they leave no values behind)
	Warmup []string `json:"warmup,omitempty"`
	// Foreign: some level holds a positional value spelled like a command that is not one of its direct sub commands
	Foreign bool `json:"foreign,omitempty"`
	// Builtin: valued options and arguments of every level are the library's own []string containers, all declared
	// with ONE shared default slice (spare capacity), as in C02
	Builtin bool `json:"builtin,omitempty"`

	forceContinue bool
}

// EffPolicy is the error policy in force at level l of the path.
func (c *TreeCase) EffPolicy(l int) int {
	p := c.Policy
	for _, cmd := range c.PathCmds()[:l+1] {
		if cmd.PolicyPlus1 > 0 {
			p = cmd.PolicyPlus1 - 1
		}
	}
	if c.forceContinue {
		return PolContinue
	}
	return p
}

// Argv assembles the argument vector.
func (c *TreeCase) Argv() []string {
	var argv []string
	if c.Version != "" {
		argv = append(argv, c.Version)
	}
	cur := c.Root
	for l, toks := range c.Levels {
		argv = append(argv, toks...)
		if l < len(c.Path) {
			cur = cur.Subs[c.Path[l]]
			argv = append(argv, cur.Aliases[c.Alias[l]%len(cur.Aliases)])
		}
	}
	return argv
}

// PathCmds returns the commands along the path.
func (c *TreeCase) PathCmds() []*TCmd {
	out := []*TCmd{c.Root}
	cur := c.Root
	for _, i := range c.Path {
		cur = cur.Subs[i]
		out = append(out, cur)
	}
	return out
}

// FullPath is the name shown in usage lines for level l.
func (c *TreeCase) FullPath(l int) string {
	names := []string{"app"}
	for _, cmd := range c.PathCmds()[1 : l+1] {
		names = append(names, cmd.Aliases[0])
	}
	return strings.Join(names, " ")
}

func implicitAST(d *Decls) *Node {
	seq := &Node{Kind: KSeq}
	if len(d.Opts) > 0 {
		seq.Kids = append(seq.Kids, &Node{Kind: KOptional, Kids: []*Node{{Kind: KGroup, Group: allIdx(len(d.Opts)), AllOpts: true}}})
	}
	for i := range d.Args {
		seq.Kids = append(seq.Kids, &Node{Kind: KArg, Arg: i})
	}
	return seq
}

// GenTree draws a command tree.
func GenTree(t *rapid.T, depth int, id *int, cfg GenCfg) *TCmd {
	d := GenDecls(t, cfg)
	*id++
	c := &TCmd{D: d, Long: fmt.Sprintf("qlong%dz", *id), Desc: fmt.Sprintf("qdesc%dz", *id), HasAction: !chance(t, 1, 5, "noaction")}
	if chance(t, 3, 4, "explicit") {
		c.AST = GenSpec(t, d, cfg)
		c.Spec = c.AST.Render(d)
	} else {
		c.AST = implicitAST(d)
		c.Implicit = true
	}
	if depth > 0 {
		n := rapid.IntRange(0, 3).Draw(t, "nsubs")
		for i := 0; i < n; i++ {
			s := GenTree(t, depth-1, id, cfg)
			if cfg.BareSubs {
				s.D = &Decls{}
				s.AST, s.Spec, s.Implicit = implicitAST(s.D), "", true
			} else if chance(t, 1, 6, "samedecls") {
				// the very same declarations and spec text as the parent: each level must still bind its own variables
				s.D, s.AST, s.Spec, s.Implicit = c.D, c.AST, c.Spec, c.Implicit
			}
			na := rapid.IntRange(1, 3).Draw(t, "naliases")
			for j := 0; j < na; j++ {
				al := fmt.Sprintf("c%d%c", *id*10+i, 'a'+j)
				if chance(t, 1, 6, "nonasciialias") {
					al = fmt.Sprintf("c%d%cé", *id*10+i, 'a'+j) // command names are arbitrary words, not only ASCII
				}
				if cfg.aliasPool != nil && len(*cfg.aliasPool) > 0 && chance(t, 1, 5, "reusedalias") {
					// the name of a command elsewhere in the tree (a descendant, a cousin, ...): routing is per level
					cand := (*cfg.aliasPool)[intn(t, len(*cfg.aliasPool), "reuse")]
					taken := false
					for _, sib := range c.Subs {
						for _, a := range sib.Aliases {
							taken = taken || a == cand
						}
					}
					for _, a := range s.Aliases {
						taken = taken || a == cand
					}
					if !taken {
						al = cand
					}
				}
				s.Aliases = append(s.Aliases, al)
			}
			if cfg.aliasPool != nil {
				*cfg.aliasPool = append(*cfg.aliasPool, s.Aliases...)
			}
			c.Subs = append(c.Subs, s)
		}
	}
	return c
}

func (c *TCmd) walk(f func(*TCmd)) {
	f(c)
	for _, s := range c.Subs {
		s.walk(f)
	}
}

// FRec is the recorder used in trees: it fails on BadToken.
type FRec struct{ Rec }

// Set records or fails.
func (r *FRec) Set(s string) error {
	if s == BadToken {
		return fmt.Errorf("cannot convert %q", s)
	}
	return r.Rec.Set(s)
}

// FBRec is the flag flavour.
type FBRec struct{ FRec }

// IsBoolFlag marks a flag.
func (b *FBRec) IsBoolFlag() bool { return true }

// TreeOutcome is what one run of a tree case shows.
type TreeOutcome struct {
	Outcome
	Binds map[string]map[string][]string // level path -> bindings, read inside the Action
	// FlagBinds: the same through the SetByUser flags (only consulted for the library's own containers, where a
	// command-line value equal to the declared content cannot be told from "not written" by looking at the content)
	FlagBinds map[string]map[string][]string
}

type treeDecl struct {
	holders       map[string][]Holder
	forceContinue bool
	builtin       bool
	shared        []string // the ONE default slice of every built-in container of the tree (all levels)
}

func declareTree(c *cli.Cmd, t *TCmd, path string, out *TreeOutcome, td *treeDecl, chain []string) {
	if t.PolicyPlus1 > 0 && !td.forceContinue {
		c.ErrorHandling = policies[t.PolicyPlus1-1]
	}
	var hs []Holder
	for i, o := range t.D.Opts {
		set := new(bool)
		env := ""
		if o.Env {
			env = EnvName(i)
			setenv(env, EnvValue(o))
		}
		if o.Bool {
			v := &FBRec{}
			c.Var(cli.VarOpt{Name: o.DeclName(), Value: v, EnvVar: env, SetByUser: set})
			hs = append(hs, Holder{Key: t.D.OptKey(i), Rec: &v.Rec, Set: set})
		} else if td.builtin {
			p := c.Strings(cli.StringsOpt{Name: o.DeclName(), Value: td.shared, EnvVar: env, SetByUser: set})
			hs = append(hs, Holder{Key: t.D.OptKey(i), Set: set, Get: func() []string { return *p }})
		} else {
			v := &FRec{}
			c.Var(cli.VarOpt{Name: o.DeclName(), Value: v, EnvVar: env, SetByUser: set})
			hs = append(hs, Holder{Key: t.D.OptKey(i), Rec: &v.Rec, Set: set})
		}
		if env != "" {
			unsetenv(env)
		}
	}
	for i, a := range t.D.Args {
		set := new(bool)
		if td.builtin {
			p := c.Strings(cli.StringsArg{Name: a.Name, Value: td.shared, SetByUser: set})
			hs = append(hs, Holder{Key: t.D.ArgKey(i), Set: set, Get: func() []string { return *p }})
			continue
		}
		v := &FRec{}
		c.Var(cli.VarArg{Name: a.Name, Value: v, SetByUser: set})
		hs = append(hs, Holder{Key: t.D.ArgKey(i), Rec: &v.Rec, Set: set})
	}
	Arm(hs)
	td.holders[path] = hs
	c.Spec = t.Spec
	c.LongDesc = t.Long
	mychain := append(append([]string{}, chain...), path)
	c.Before = func() { out.Log = append(out.Log, "B:"+path) }
	c.After = func() { out.Log = append(out.Log, "F:"+path) }
	if t.HasAction {
		c.Action = func() {
			out.Log = append(out.Log, "A:"+path)
			for _, p := range mychain {
				out.Binds[p] = Snapshot(td.holders[p])
				out.FlagBinds[p] = SnapshotFlags(td.holders[p])
			}
		}
	}
	for _, s := range t.Subs {
		s := s
		c.Command(strings.Join(s.Aliases, " "), s.Desc, func(sc *cli.Cmd) {
			declareTree(sc, s, path+"/"+s.Aliases[0], out, td, mychain)
		})
	}
}

// EmptyVersion as TreeCase.VersionStr stands for the empty version string ("" itself means the default VersionString).
const EmptyVersion = "<empty>"

// VersionString is printed by apps that declare a version.
const VersionString = "9.8.7-qver"

func (c *TreeCase) versionStr() string {
	if c.VersionStr == EmptyVersion {
		return "" // an application may well declare an empty version string (a build variable that was never injected)
	}
	if c.VersionStr != "" {
		return c.VersionStr
	}
	return VersionString
}

// RunTree runs the case against the library.
func RunTree(c *TreeCase) TreeOutcome {
	var out TreeOutcome
	out.Binds = map[string]map[string][]string{}
	out.FlagBinds = map[string]map[string][]string{}
	var app *cli.Cli
	if c.Warmup != nil {
		// a first (help) request on the same application object; its output and ending are not part of the case
		var w Outcome
		WithSwap(&w, func() {
			app = buildTreeApp(&out, c)
			_ = app.Run(append([]string{"app"}, c.Warmup...))
		})
		out.Log = nil
		out.Binds = map[string]map[string][]string{}
		out.FlagBinds = map[string]map[string][]string{}
	}
	WithSwap(&out.Outcome, func() {
		if app == nil {
			app = buildTreeApp(&out, c)
		}
		runTreeApp(&out, app, c)
	})
	return out
}

// RunTreeInner is RunTree without touching the package level streams (no warm-up run).
func RunTreeInner(out *TreeOutcome, c *TreeCase) {
	runTreeApp(out, buildTreeApp(out, c), c)
}

func buildTreeApp(out *TreeOutcome, c *TreeCase) *cli.Cli {
	app := cli.App("app", c.Root.Desc)
	app.ErrorHandling = policies[c.Policy]
	if c.forceContinue {
		app.ErrorHandling = policies[PolContinue]
	}
	if c.Version != "" || c.DeclaresVersion {
		app.Version("V qversion", c.versionStr())
	}
	td := &treeDecl{holders: map[string][]Holder{}, forceContinue: c.forceContinue, builtin: c.Builtin}
	if c.Builtin {
		td.shared = BuiltinDefault()
	}
	declareTree(app.Cmd, c.Root, "app", out, td, nil)
	return app
}

func runTreeApp(out *TreeOutcome, app *cli.Cli, c *TreeCase) {
	err := app.Run(append([]string{"app"}, c.Argv()...))
	if err != nil {
		out.HasErr, out.Err = true, err.Error()
	}
}

func normWS(s string) string { return strings.Join(strings.Fields(s), " ") }

// shownLevel returns the level of the path whose usage line the stream shows (-1 if none): the deepest level whose
// full command path is a prefix of the words after "Usage:" (aliases never occur as spec words).
func shownLevel(stderr string, c *TreeCase) int {
	for _, line := range strings.Split(stderr, "\n") {
		f := strings.Fields(line)
		if len(f) == 0 || f[0] != "Usage:" {
			continue
		}
		best := -1
		for l := range c.PathCmds() {
			want := strings.Fields(c.FullPath(l))
			if len(f)-1 < len(want) {
				continue
			}
			ok := true
			for i, w := range want {
				if f[1+i] != w {
					ok = false
				}
			}
			if ok {
				best = l
			}
		}
		return best
	}
	return -1
}

func containsUsage(stderr, path string) bool {
	ns := normWS(stderr) + " "
	return strings.Contains(ns, "Usage: "+path+" ")
}

// levelVerdict classifies one level.
type levelVerdict struct {
	cl         Classified
	conversion bool // accepted by the spec but a token is not convertible
}

func classifyLevel(cmd *TCmd, toks []string) levelVerdict {
	lv := levelVerdict{cl: Classify(cmd.D, cmd.AST, toks)}
	if lv.cl.Unclaimed == "" {
		for _, t := range toks {
			if t == BadToken {
				lv.conversion = true
			}
		}
	}
	return lv
}

func levelPath(c *TreeCase, l int) string {
	p := "app"
	for _, cmd := range c.PathCmds()[1 : l+1] {
		p += "/" + cmd.Aliases[0]
	}
	return p
}

// TreeExpect is the model's view of a tree case.
type TreeExpect struct {
	Unclaimed  string
	Known      bool // explained only by the recorded greedy-group finding
	HelpAt     int  // level whose long help must be printed, -1 none
	RejectAt   int  // first rejecting level, -1 none
	Conversion bool // the rejection is a conversion failure
	// RejectLevels: every level that may legitimately be "the rejecting command": the first level whose spec rejects
	// its tokens and every level before it holding an unconvertible value (an implementation may match all levels
	// before it converts any value)
	RejectLevels []int
	NoAction     bool // addressed command has no Action (library prints help; not claimed)
	Version      bool
}

// ExpectTree computes the expected behaviour from the statement of C04/C07/C14.
func ExpectTree(c *TreeCase, ideal bool) TreeExpect {
	e := TreeExpect{HelpAt: -1, RejectAt: -1}
	cmds := c.PathCmds()
	if c.Version != "" {
		e.Version = true
		return e
	}
	// help: the first level (root first) whose own tokens hold -h/--help before any "--"; levels before it must not hold "--"
	ancestorDD := false
	for l, toks := range c.Levels {
		if HasHelpToken(toks) {
			if ancestorDD {
				e.Unclaimed = "help-with-ancestor-dd"
				return e
			}
			e.HelpAt = l
			return e
		}
		for _, t := range toks {
			if t == "--" {
				ancestorDD = true
			}
		}
	}
	for l, toks := range c.Levels {
		lv := classifyLevel(cmds[l], toks)
		if lv.cl.Unclaimed != "" {
			e.Unclaimed = lv.cl.Unclaimed
			return e
		}
		accept := lv.cl.Accept
		if lv.cl.Accept != lv.cl.Greedy && !ideal {
			// the recorded greedy-group finding decides this level: follow the library's (greedy) verdict, flag the case
			e.Known = true
			accept = lv.cl.Greedy
		}
		if !accept {
			e.RejectLevels = append(e.RejectLevels, l)
			break
		}
		if lv.conversion {
			e.RejectLevels = append(e.RejectLevels, l)
		}
	}
	if len(e.RejectLevels) > 0 {
		e.RejectAt = e.RejectLevels[0]
		for _, t := range c.Levels[e.RejectAt] {
			if t == BadToken {
				e.Conversion = classifyLevel(cmds[e.RejectAt], c.Levels[e.RejectAt]).conversion
			}
		}
		return e
	}
	if !cmds[len(cmds)-1].HasAction {
		e.NoAction = true
	}
	return e
}

// CheckTree compares one run with the expectation. which selects the property on whose behalf violations are worded.
func CheckTree(prop string, c *TreeCase, st *Stats) *Violation {
	st.Eval()
	e := ExpectTree(c, false)
	if e.Unclaimed != "" {
		st.Class("unclaimed:" + e.Unclaimed)
		return nil
	}
	if e.Known {
		if KnownClassAny(F3Class) {
			// the recorded finding may decide one level's verdict: the case is still run and everything else (routing, hooks,
			// policy, streams) is demanded, either with exactly the greedy-group verdict at that level or - the library may
			// have found an accepting derivation the greedy rule does not exclude - with the ideal verdict
			st.Class("known:" + F3Class)
			if v := checkTreeExpect(prop, c, st, e); v == nil {
				return nil
			}
			return checkTreeExpect(prop, c, st, ExpectTree(c, true))
		}
		// without the known-finding entry the ideal verdict is demanded
		e = ExpectTree(c, true)
	}
	return checkTreeExpect(prop, c, st, e)
}

// checkTreeExpect runs the case and compares it with one expectation.
func checkTreeExpect(prop string, c *TreeCase, st *Stats, e TreeExpect) *Violation {
	if e.NoAction {
		st.Class("unclaimed:addressed-command-without-action")
		return nil
	}
	Begin(prop, "tree", c)
	defer End() // the cross-policy rerun below stays under the watchdog too
	out := RunTree(c)
	argv := c.Argv()
	cmds := c.PathCmds()
	ctx := fmt.Sprintf("policy=%v%s argv=%q", policies[c.Policy], subPolicies(c), argv)
	if c.DeclaresVersion {
		ctx += " (the app declares Version(\"V qversion\"); a sub command owns an option with such a name)"
		st.Class("version:declared-not-requested-name-reused-by-subcommand")
	}
	if c.Warmup != nil {
		ctx += fmt.Sprintf(" (second run on the same application object, after %q)", c.Warmup)
		st.Class("sequence:second-run-on-same-app")
	}
	pol := c.Policy
	exitOK := func(code int) *Violation {
		switch pol {
		case PolExit:
			if out.Exit == nil || *out.Exit != code || out.Exits != 1 {
				return Violf("expected exit(%d) exactly once, got exit=%v x%d panic=%q err=%q; %s", code, fmtExit(out.Exit), out.Exits, out.Panic, out.Err, ctx)
			}
		default:
			if out.Exit != nil {
				return Violf("exit(%d) called although the policy is not ExitOnError; %s", *out.Exit, ctx)
			}
		}
		return nil
	}
	switch {
	case e.Version:
		st.Class("kind:version")
		if len(out.Log) != 0 {
			return Violf("version request ran hooks %v; %s", out.Log, ctx)
		}
		if !strings.Contains(out.All, c.versionStr()) {
			return Violf("version request did not print the version string %q; stderr=%q; %s", c.versionStr(), out.All, ctx)
		}
		if v := exitOK(0); v != nil {
			return v
		}
		if out.HasErr || out.Panic != "" {
			return Violf("version request: err=%q panic=%q; %s", out.Err, out.Panic, ctx)
		}
		st.NonTrivial("version\x00"+strings.Join(argv, "\x01")+fmt.Sprint(c.Policy), func() interface{} { return map[string]interface{}{"argv": argv, "policy": c.Policy, "kind": "version"} })
		return nil
	case e.HelpAt >= 0:
		pol = c.EffPolicy(e.HelpAt)
		st.Class("kind:help")
		nhelp := 0
		for _, lt := range c.Levels {
			if HasHelpToken(lt) {
				nhelp++
			}
		}
		if nhelp >= 2 {
			st.Class("help:tokens-at-several-levels")
		}
		if len(out.Log) != 0 {
			return Violf("help request ran hooks %v; %s", out.Log, ctx)
		}
		if !containsUsage(out.All, c.FullPath(e.HelpAt)) {
			return Violf("help request for %q: 'Usage: %s' missing from the error stream %q; %s", c.FullPath(e.HelpAt), c.FullPath(e.HelpAt), normWS(out.All), ctx)
		}
		ns := " " + normWS(out.All) + " "
		for l, cmd := range cmds {
			has := strings.Contains(ns, " "+cmd.Long+" ")
			if has != (l == e.HelpAt) {
				return Violf("help request addressed to level %d (%s): long description of level %d present=%v; stderr=%q; %s", e.HelpAt, c.FullPath(e.HelpAt), l, has, normWS(out.All), ctx)
			}
		}
		if v := exitOK(0); v != nil {
			return v
		}
		if out.HasErr || out.Panic != "" {
			return Violf("help request: err=%q panic=%q; %s", out.Err, out.Panic, ctx)
		}
		// non-trivial: help token at depth >= 1 or preceded by tokens invalid for their level
		invalidBefore := false
		for l := 0; l < e.HelpAt; l++ {
			if cl := Classify(cmds[l].D, cmds[l].AST, c.Levels[l]); cl.Unclaimed == "" && !cl.Accept {
				invalidBefore = true
			}
		}
		if invalidBefore {
			st.Class("help:after-invalid-ancestor-args")
		}
		if e.HelpAt >= 1 || invalidBefore {
			st.NonTrivial("help\x00"+strings.Join(argv, "\x01")+fmt.Sprint(c.Policy), func() interface{} {
				return map[string]interface{}{"argv": argv, "policy": c.Policy, "kind": "help", "help_level": e.HelpAt}
			})
		}
		return nil
	case e.RejectAt >= 0:
		st.Class("kind:reject")
		if c.HelpLevel >= 0 {
			st.Class("help:token-after-dd-is-data")
		}
		if e.Conversion {
			st.Class("reject:conversion")
		}
		if len(out.Log) != 0 {
			return Violf("rejected invocation (level %d) ran hooks %v; %s", e.RejectAt, out.Log, ctx)
		}
		// C07 names the stream ("writes the error and the usage ... to the error stream"); the others do not
		es := out.All
		if prop == "C07" {
			es = out.Stderr
		}
		shown := shownLevel(es, c)
		okLevel := false
		for _, l := range e.RejectLevels {
			okLevel = okLevel || l == shown
		}
		if !okLevel {
			return Violf("rejected invocation: the usage of the rejecting command (one of the levels %v: first spec mismatch, or an unconvertible value before it) is missing from the error stream; it shows level %d: %q; %s",
				e.RejectLevels, shown, normWS(es), ctx)
		}
		pol = c.EffPolicy(shown)
		if len(e.RejectLevels) > 1 {
			st.Class("reject:several-candidate-levels")
		}
		if pol != c.Policy {
			st.Class("reject:under-a-policy-set-on-a-subcommand")
		}
		switch pol {
		case PolContinue:
			if !out.HasErr || out.Exit != nil || out.Panic != "" {
				return Violf("ContinueOnError: expected a returned error, got err=%q exit=%v panic=%q; %s", out.Err, fmtExit(out.Exit), out.Panic, ctx)
			}
			if !strings.Contains(es, out.Err) {
				return Violf("ContinueOnError: the error stream %q lacks the error text %q; %s", es, out.Err, ctx)
			}
		case PolExit:
			if v := exitOK(2); v != nil {
				return v
			}
			if out.Panic != "" {
				return Violf("ExitOnError: panic %q; %s", out.Panic, ctx)
			}
		case PolPanic:
			perr, ok := out.PanicVal.(error)
			if !ok || out.Exit != nil {
				return Violf("PanicOnError: expected a panic with the error, got panic=%q exit=%v err=%q; %s", out.Panic, fmtExit(out.Exit), out.Err, ctx)
			}
			if !strings.Contains(es, perr.Error()) {
				return Violf("PanicOnError: the error stream %q lacks the error text %q; %s", es, perr.Error(), ctx)
			}
		}
		if pol == PolExit {
			// under ExitOnError the error is neither returned nor raised: its text is taken from the same invocation under
			// ContinueOnError and must be in the stream (the streams themselves are not compared: only "the error and the
			// usage of the rejecting command" is promised)
			c2 := *c
			c2.forceContinue = true
			ref := RunTree(&c2)
			if ref.HasErr && !strings.Contains(es, ref.Err) {
				return Violf("ExitOnError: the error stream %q lacks the error text %q (taken from the same invocation under ContinueOnError); %s", es, ref.Err, ctx)
			}
		}
		if e.RejectAt >= 1 || e.Conversion {
			st.NonTrivial("reject\x00"+strings.Join(argv, "\x01")+fmt.Sprint(c.Policy), func() interface{} {
				return map[string]interface{}{"argv": argv, "policy": c.Policy, "kind": "reject", "reject_level": e.RejectAt, "conversion": e.Conversion}
			})
		}
		return nil
	}
	// accepted
	st.Class("kind:accept")
	if c.HelpLevel >= 0 {
		st.Class("help:token-after-dd-is-data")
	}
	var want []string
	var paths []string
	for l := range cmds {
		paths = append(paths, levelPath(c, l))
		want = append(want, "B:"+paths[l])
	}
	want = append(want, "A:"+paths[len(paths)-1])
	for l := len(paths) - 1; l >= 0; l-- {
		want = append(want, "F:"+paths[l])
	}
	if !reflect.DeepEqual(out.Log, want) {
		return Violf("accepted invocation: hooks ran %v, expected %v (exactly the addressed command's Action, once); %s", out.Log, want, ctx)
	}
	if out.HasErr || out.Exit != nil || out.Panic != "" {
		return Violf("accepted invocation: err=%q exit=%v panic=%q; %s", out.Err, fmtExit(out.Exit), out.Panic, ctx)
	}
	for l, p := range paths {
		b := out.Binds[p]
		if b == nil {
			b = map[string][]string{}
		}
		cmd := cmds[l]
		if !Verifies(cmd.D, cmd.AST, c.Levels[l], b, Quirks{}) {
			if cmd.AST.HasKind(KDD) && Verifies(cmd.D, cmd.AST, c.Levels[l], b, Quirks{KeepTainted: true}) {
				st.Class("unclaimed:tainted-binding")
				continue
			}
			if hasEnvGroup(cmd.D, cmd.AST) && Verifies(cmd.D, cmd.AST, c.Levels[l], b, Quirks{GroupEnvAlone: true, KeepTainted: true}) {
				st.Class("unclaimed:group-env-binding")
				continue
			}
			if fb := out.FlagBinds[p]; c.Builtin && fb != nil && Verifies(cmd.D, cmd.AST, c.Levels[l], fb, Quirks{GroupEnvAlone: true, KeepTainted: true}) {
				// a command-line value equal to the declared content of one of the library's own containers
				st.Class("binding:read-through-flags")
				continue
			}
			return Violf("level %d (%s, spec %q): bound values %s are not a derivation of its own tokens %q; %s", l, p, cmd.AST.Render(cmd.D), fmtBind(b), c.Levels[l], ctx)
		}
	}
	nonEmpty, nonFirst := false, false
	for _, t := range c.Levels {
		if len(t) > 0 {
			nonEmpty = true
		}
	}
	for l := range c.Path {
		if c.Alias[l]%len(cmds[l+1].Aliases) > 0 {
			nonFirst = true
		}
	}
	if c.Foreign {
		st.Class("accept:value-spelled-like-a-command-elsewhere-in-the-tree")
	}
	reused := map[string]int{}
	c.Root.walk(func(cmd *TCmd) {
		for _, a := range cmd.Aliases {
			reused[a]++
		}
	})
	for _, n := range reused {
		if n > 1 {
			st.Class("accept:tree-reuses-a-command-name-on-another-branch-or-level")
			break
		}
	}
	if len(c.Path) >= 1 {
		st.Class("accept:depth>=1")
		if c.Builtin {
			st.Class("accept:depth>=1,builtin-containers-sharing-one-default")
		}
	}
	for l := 1; l < len(cmds); l++ {
		if cmds[l].D == cmds[l-1].D || (cmds[l].Spec == cmds[l-1].Spec && FmtDecls(cmds[l].D) == FmtDecls(cmds[l-1].D)) {
			st.Class("accept:two-levels-with-identical-declarations")
			break
		}
	}
	if len(c.Path) >= 2 && nonEmpty && nonFirst {
		st.NonTrivial("accept\x00"+strings.Join(argv, "\x01")+fmt.Sprint(c.Policy), func() interface{} {
			return map[string]interface{}{"argv": argv, "policy": c.Policy, "kind": "accept", "depth": len(c.Path)}
		})
	}
	return nil
}

func cloneNode(n *Node) *Node {
	if n == nil {
		return nil
	}
	c := *n
	c.Kids = nil
	for _, k := range n.Kids {
		c.Kids = append(c.Kids, cloneNode(k))
	}
	c.Group = append([]int(nil), n.Group...)
	return &c
}

func subPolicies(c *TreeCase) string {
	s := ""
	for l, cmd := range c.PathCmds() {
		if cmd.PolicyPlus1 > 0 {
			s += fmt.Sprintf(" level%d=%v", l, policies[cmd.PolicyPlus1-1])
		}
	}
	if s != "" {
		s = " (set in sub command initializers:" + s + ")"
	}
	return s
}

func fmtExit(e *int) string {
	if e == nil {
		return "none"
	}
	return fmt.Sprint(*e)
}

// TreeGenMode biases the generator.
type TreeGenMode struct {
	Help     int // chance in 8 of inserting a help token
	Bad      int // chance in 8 of inserting a BadToken
	Garbage  int // chance in 8 of appending an unknown word after a level's tokens
	Version  int // chance in 16 of a version request
	Mutate   int // chance in 8 of mutating a level's tokens
	Policies bool
	SubPol   int // chance in 8 that a sub command sets its own policy
	Warmup   int // chance in 8 of a first help request on the same application object
	// SubVersion: a sub command on the path may own (and use) an option spelled like the app's version flag even
	// when the mode never requests the version itself
	SubVersion bool
}

// GenTreeCase draws a tree, a path and per-level tokens.
func GenTreeCase(t *rapid.T, mode TreeGenMode) *TreeCase {
	id := 0
	cfg := GenCfg{Depth: 2, Env: true, DD: true}
	depth := 3
	if mode.Warmup > 0 && chance(t, 1, 4, "baresubs") {
		// only the root declares parameters: the library can Run such an application object more than once
		cfg.BareSubs, depth = true, 4
	}
	var pool []string
	cfg.aliasPool = &pool
	root := GenTree(t, depth, &id, cfg)
	c := &TreeCase{Root: root, HelpLevel: -1}
	if mode.Policies {
		c.Policy = intn(t, 3, "policy")
	}
	cur := root
	foreign := false
	for {
		items := SampleItems(t, cur.D, cur.AST, cfg)
		if len(pool) > 0 && chance(t, 1, 6, "foreignname") {
			// a positional value spelled like a command elsewhere in the tree, but not like one of THIS command's sub
			// commands: ordinary data for this level
			var cands []int
			for k, it := range items {
				if it.Opt < 0 && it.Pos != "--" {
					cands = append(cands, k)
				}
			}
			name := pool[intn(t, len(pool), "foreign")]
			direct := false
			for _, s := range cur.Subs {
				for _, a := range s.Aliases {
					direct = direct || a == name
				}
			}
			if len(cands) > 0 && !direct {
				items = append([]Item{}, items...)
				items[cands[intn(t, len(cands), "foreignat")]].Pos = name
				foreign = true
			}
		}
		toks := Spell(t, cur.D, items)
		if chance(t, mode.Mutate, 8, "mutlevel") {
			toks = MutateArgv(t, toks)
		}
		if chance(t, mode.Garbage, 8, "garbage") {
			toks = append(toks, rapid.SampledFrom([]string{"nosuch", "-z", "--zzz", "c999"}).Draw(t, "junk"))
		}
		if chance(t, mode.Bad, 8, "bad") {
			p := intn(t, len(toks)+1, "badat")
			if len(toks) > 0 && chance(t, 1, 2, "replace") {
				p = intn(t, len(toks), "badat2")
				toks = append([]string{}, toks...)
				toks[p] = BadToken
			} else {
				toks = append(toks[:p:p], append([]string{BadToken}, toks[p:]...)...)
			}
		}
		c.Levels = append(c.Levels, toks)
		if len(cur.Subs) == 0 || (!cfg.BareSubs && chance(t, 1, 3, "stop")) || (cfg.BareSubs && chance(t, 1, 6, "stopbare")) {
			break
		}
		i := intn(t, len(cur.Subs), "sub")
		c.Path = append(c.Path, i)
		c.Alias = append(c.Alias, intn(t, 3, "alias"))
		cur = cur.Subs[i]
		if mode.Policies && chance(t, mode.SubPol, 8, "subpol") {
			cur.PolicyPlus1 = 1 + intn(t, 3, "subpolicy")
		}
	}
	cur.HasAction = cur.HasAction || !chance(t, 1, 10, "leafnoaction")
	if cfg.BareSubs && chance(t, mode.Warmup, 8, "warmup") {
		// a help request for a random command of the tree (not necessarily on the path)
		w := []string{}
		wc := root
		if len(c.Path) > 0 && chance(t, 1, 2, "wonpath") {
			// an ancestor of the addressed command
			k := intn(t, len(c.Path)+1, "wlen")
			for _, i := range c.Path[:k] {
				wc = wc.Subs[i]
				w = append(w, wc.Aliases[intn(t, len(wc.Aliases), "walias")])
			}
		} else {
			for len(wc.Subs) > 0 && chance(t, 3, 4, "wdeeper") {
				wc = wc.Subs[intn(t, len(wc.Subs), "wsub")]
				w = append(w, wc.Aliases[intn(t, len(wc.Aliases), "walias")])
			}
		}
		c.Warmup = append(w, rapid.SampledFrom([]string{"-h", "--help"}).Draw(t, "whelp"))
	}
	if chance(t, mode.Help, 8, "help") {
		l := intn(t, len(c.Levels), "helplevel")
		lt := c.Levels[l]
		p := intn(t, len(lt)+1, "helpat")
		tok := rapid.SampledFrom([]string{"-h", "--help"}).Draw(t, "helptok")
		ins := []string{tok}
		if chance(t, 1, 4, "ddbeforehelp") {
			ins = []string{"--", tok}
		}
		c.Levels[l] = append(lt[:p:p], append(ins, lt[p:]...)...)
		c.HelpLevel = l
		if len(c.Levels) > 1 && chance(t, 1, 3, "secondhelp") {
			// a second help token at another level: the first one (root first) decides
			l2 := intn(t, len(c.Levels), "helplevel2")
			lt2 := c.Levels[l2]
			p2 := intn(t, len(lt2)+1, "helpat2")
			c.Levels[l2] = append(lt2[:p2:p2], append([]string{rapid.SampledFrom([]string{"-h", "--help"}).Draw(t, "helptok2")}, lt2[p2:]...)...)
			if l2 < l {
				c.HelpLevel = l2
			}
		}
	}
	if !cfg.BareSubs && (mode.Version > 0 || mode.SubVersion) && len(c.Path) >= 1 && chance(t, 1, 6, "subownsversionname") {
		// a sub command on the path declares its own flag spelled like the app's version flag and uses it
		l := 1 + intn(t, len(c.Path), "vlevel")
		cmd := c.PathCmds()[l]
		d := &Decls{Opts: append([]OptDecl{}, cmd.D.Opts...), Args: cmd.D.Args}
		names := rapid.SampledFrom([][]string{{"-V"}, {"--qversion"}, {"-V", "--qversion"}}).Draw(t, "vnames")
		d.Opts = append(d.Opts, OptDecl{Names: names, Bool: true})
		vo := len(d.Opts) - 1
		cmd.D = d
		if cmd.Implicit {
			cmd.AST = implicitAST(d)
		} else {
			// OPTIONS means ALL declared options: the groups of the (copied) spec that stand for it gain the new one
			old := cloneNode(cmd.AST)
			old.Walk(func(n *Node) {
				if n.Kind == KGroup && n.AllOpts {
					n.Group = append(append([]int{}, n.Group...), vo)
				}
			})
			cmd.AST = &Node{Kind: KSeq, Kids: []*Node{{Kind: KOptional, Kids: []*Node{{Kind: KOpt, Opt: vo}}}, old}}
			cmd.Spec = cmd.AST.Render(d)
		}
		c.Levels[l] = append([]string{names[intn(t, len(names), "vspell")]}, c.Levels[l]...)
		c.DeclaresVersion = true
	}
	c.Foreign = foreign
	if chance(t, 1, 4, "builtin") {
		// the library's own []string containers at every level, all declared with one shared default slice; they convert
		// anything, so only for cases without the unconvertible token
		c.Builtin = true
		for _, toks := range c.Levels {
			for _, tk := range toks {
				if tk == BadToken {
					c.Builtin = false
				}
			}
		}
	}
	if !c.DeclaresVersion && chance(t, mode.Version, 16, "version") {
		c.Version = rapid.SampledFrom([]string{"-V", "--qversion"}).Draw(t, "vflag")
		c.VersionStr = rapid.SampledFrom([]string{"", "1.4.0 (100% qver compatible)", "%d-qver-%s%", "qver\t2", EmptyVersion}).Draw(t, "vstr")
	}
	return c
}

func init() {
	for _, p := range []string{"C04", "C07", "C14"} {
		p := p
		RegisterReplay(p, "tree", func(raw json.RawMessage) *Violation {
			var c TreeCase
			if err := json.Unmarshal(raw, &c); err != nil {
				return Violf("bad replay file: %v", err)
			}
			return CheckTree(p, &c, StatsFor(p+".replay"))
		})
	}
}
