package vh

import (
	"testing"

	"pgregory.net/rapid"
)

func TestC17(t *testing.T) {
	st := StatsFor("C17")
	rapid.Check(t, func(rt *rapid.T) {
		c := GenHelpCase(rt)
		Report(rt, "C17", "help", c, CheckC17(c, st))
	})
}
