package vh

import (
	"encoding/json"
	"flag"
	"fmt"
	"os"
	"reflect"
	"strings"

	cli "github.com/jawher/mow.cli"
)

// ---- instrumented custom value types: every subset of the optional methods ------------------------

type lv struct {
	name   string
	log    *[]string
	failOn string
	isBool bool
	vals   []string
}

func (v *lv) Set(s string) error {
	*v.log = append(*v.log, v.name+":Set:"+s)
	if s == v.failOn {
		return fmt.Errorf("scripted failure on %q", s)
	}
	v.vals = append(v.vals, s)
	return nil
}
func (v *lv) String() string { return strings.Join(v.vals, "+") }

type mixB struct{ b *lv }

func (m mixB) IsBoolFlag() bool { return m.b.isBool }

type mixC struct{ c *lv }

func (m mixC) Clear() { *m.c.log = append(*m.c.log, m.c.name+":Clear"); m.c.vals = nil }

type mixD struct{ d *lv }

func (m mixD) IsDefault() bool { return len(m.d.vals) == 0 }

type v000 struct{ *lv }
type v100 struct {
	*lv
	mixB
}
type v010 struct {
	*lv
	mixC
}
type v001 struct {
	*lv
	mixD
}
type v110 struct {
	*lv
	mixB
	mixC
}
type v101 struct {
	*lv
	mixB
	mixD
}
type v011 struct {
	*lv
	mixC
	mixD
}
type v111 struct {
	*lv
	mixB
	mixC
	mixD
}

// Two more Go kinds a user-supplied value type may have (both carry every optional method): a map type used by value and a
// struct with a slice field used by value. Neither is comparable, so the library must not use them as map keys, and
// neither is a pointer, so it must not ask whether they are nil.
type mapCustom map[string]*lv

func (m mapCustom) Set(s string) error { return m["l"].Set(s) }
func (m mapCustom) String() string     { return m["l"].String() }
func (m mapCustom) IsBoolFlag() bool   { return m["l"].isBool }
func (m mapCustom) IsDefault() bool    { return len(m["l"].vals) == 0 }
func (m mapCustom) Clear()             { mixC{m["l"]}.Clear() }

type sliceStructCustom struct {
	l   *lv
	pad []int
}

func (v sliceStructCustom) Set(s string) error { return v.l.Set(s) }
func (v sliceStructCustom) String() string     { return v.l.String() }
func (v sliceStructCustom) IsBoolFlag() bool   { return v.l.isBool }
func (v sliceStructCustom) IsDefault() bool    { return len(v.l.vals) == 0 }
func (v sliceStructCustom) Clear()             { mixC{v.l}.Clear() }

func mkCustomKind(l *lv, ct CType) flag.Value {
	switch ct.Kind {
	case 1:
		return mapCustom{"l": l}
	case 2:
		return sliceStructCustom{l: l, pad: []int{1}}
	}
	return mkCustom(l, ct.HasBool, ct.HasClear, ct.HasDefault)
}

func mkCustom(l *lv, hasB, hasC, hasD bool) flag.Value {
	switch {
	case hasB && hasC && hasD:
		return v111{l, mixB{l}, mixC{l}, mixD{l}}
	case hasB && hasC:
		return v110{l, mixB{l}, mixC{l}}
	case hasB && hasD:
		return v101{l, mixB{l}, mixD{l}}
	case hasC && hasD:
		return v011{l, mixC{l}, mixD{l}}
	case hasB:
		return v100{l, mixB{l}}
	case hasC:
		return v010{l, mixC{l}}
	case hasD:
		return v001{l, mixD{l}}
	}
	return v000{l}
}

// CType describes the custom type of one container.
type CType struct {
	HasBool    bool     `json:"has_isboolflag"`
	BoolResult bool     `json:"isboolflag_result"`
	HasClear   bool     `json:"has_clear"`
	HasDefault bool     `json:"has_isdefault"`
	FailOn     string   `json:"fail_on,omitempty"`
	Env        []string `json:"env,omitempty"` // values of the listed environment variables ("" = unset)
	// Kind: 0 = struct of pointers (capabilities as flagged above); 1 = map type by value, 2 = struct with a slice
	// field by value (both have all three optional methods)
	Kind int `json:"kind,omitempty"`
}

// ProtoCase is the case type of C19.
type ProtoCase struct {
	Program
	OptTypes []CType  `json:"opt_types"`
	ArgTypes []CType  `json:"arg_types"`
	Argv     []string `json:"argv"`
}

// expectedDeclOps models SetFromEnv for a custom type; it returns the Set/Clear log and whether a value was taken.
// asserted reports whether the log is asserted at all: what happens around an environment value the type REJECTS
// (a second Clear, trying the next variable) is implementation detail the property does not describe.
func expectedDeclOps(name string, ct CType) (ops []string, fromEnv bool) {
	ops, fromEnv, _ = expectedDeclOps2(name, ct)
	return
}

func expectedDeclOps2(name string, ct CType) (ops []string, fromEnv bool, asserted bool) {
	asserted = true
	defer func() {
		for _, o := range ops {
			if ct.FailOn != "" && o == name+":Set:"+ct.FailOn {
				asserted = false
			}
		}
	}()
	ops, fromEnv = expectedDeclOpsRaw(name, ct)
	return
}

func expectedDeclOpsRaw(name string, ct CType) (ops []string, fromEnv bool) {
	for _, v := range ct.Env {
		if v == "" {
			continue
		}
		if !ct.HasClear {
			ops = append(ops, name+":Set:"+v)
			if v != ct.FailOn {
				return ops, true
			}
			continue
		}
		ops = append(ops, name+":Clear")
		ok := true
		for _, it := range strings.Split(v, ",") {
			it = strings.TrimSpace(it)
			ops = append(ops, name+":Set:"+it)
			if it == ct.FailOn {
				ok = false
				break
			}
		}
		if ok {
			return ops, true
		}
		ops = append(ops, name+":Clear")
	}
	return ops, false
}

func filterOps(log []string, name string) []string {
	var out []string
	for _, e := range log {
		if strings.HasPrefix(e, name+":") {
			out = append(out, e)
		}
	}
	return out
}

// CheckC19 drives the instrumented types through the library and checks the protocol.
func CheckC19(c *ProtoCase, st *Stats) *Violation {
	st.Eval()
	d := &Decls{Args: c.D.Args}
	// the effective declarations: flag-ness comes from the type, env-backing from the modelled declaration outcome
	var declWant [][]string
	var declAsserted []bool
	names := []string{}
	for i, o := range c.D.Opts {
		ct := c.OptTypes[i]
		name := fmt.Sprintf("o%d", i)
		ops, fromEnv, asserted := expectedDeclOps2(name, ct)
		declWant = append(declWant, ops)
		declAsserted = append(declAsserted, asserted)
		names = append(names, name)
		d.Opts = append(d.Opts, OptDecl{Names: o.Names, Bool: ct.HasBool && ct.BoolResult, Env: fromEnv})
	}
	for i := range c.D.Args {
		name := fmt.Sprintf("a%d", i)
		ops, _, asserted := expectedDeclOps2(name, c.ArgTypes[i])
		declWant = append(declWant, ops)
		declAsserted = append(declAsserted, asserted)
		names = append(names, name)
	}
	cl := Classify(d, c.AST, c.Argv)
	if cl.Unclaimed != "" {
		st.Class("unclaimed:" + cl.Unclaimed)
		return nil
	}
	var log []string
	var declLog []string
	var out Outcome
	Begin("C19", "protocol", c)
	WithSwap(&out, func() {
		app := cli.App("app", "")
		app.ErrorHandling = flag.ContinueOnError
		declare := func(name string, ct CType, isArg bool, declName string) {
			l := &lv{name: name, log: &log, failOn: ct.FailOn, isBool: ct.BoolResult}
			v := mkCustomKind(l, ct)
			var envNames []string
			for ei, ev := range ct.Env {
				n := fmt.Sprintf("VERIF_P_%s_%d", name, ei)
				envNames = append(envNames, n)
				if ev != "" {
					os.Setenv(n, ev)
				}
			}
			if isArg {
				app.Var(cli.VarArg{Name: declName, Value: v, EnvVar: strings.Join(envNames, " ")})
			} else {
				app.Var(cli.VarOpt{Name: declName, Value: v, EnvVar: strings.Join(envNames, " ")})
			}
			for _, n := range envNames {
				os.Unsetenv(n)
			}
		}
		for i, o := range c.D.Opts {
			declare(fmt.Sprintf("o%d", i), c.OptTypes[i], false, o.DeclName())
		}
		for i, a := range c.D.Args {
			declare(fmt.Sprintf("a%d", i), c.ArgTypes[i], true, a.Name)
		}
		declLog = append([]string{}, log...)
		log = nil
		app.Spec = c.SpecStr
		app.Action = func() { out.Accept = true }
		if err := app.Run(append([]string{"app"}, c.Argv...)); err != nil {
			out.HasErr, out.Err = true, err.Error()
		}
	})
	End()
	ctx := fmt.Sprintf("spec %q argv %q opt types %s arg types %s [%s]", c.SpecStr, c.Argv, jsonOf(c.OptTypes), jsonOf(c.ArgTypes), FmtDecls(d))
	if out.Panic != "" {
		return Violf("Run panicked: %s; %s", out.Panic, ctx)
	}
	// declaration time: the library delivers environment values as (Clear,) Set(trimmed comma items) (SetFromEnv). The
	// statement of C19 says nothing about how environment content reaches a custom type - only that command-line values
	// replace it - so a different delivery is counted, not reported
	for k, name := range names {
		if !declAsserted[k] {
			st.Class("declaration:env-value-rejected-by-the-type")
			continue
		}
		if got := filterOps(declLog, name); !reflect.DeepEqual(trimOps(got), trimOps(declWant[k])) && !(len(got) == 0 && len(declWant[k]) == 0) {
			st.Class("declaration:env-delivery-differs-from-SetFromEnv(not asserted)")
		}
	}
	if out.Accept != cl.Accept && !out.HasErr {
		st.Class("deferred-to-C01")
		return nil
	}
	if !cl.Accept && !cl.Greedy {
		// rejected by the spec: nothing may be driven into the values
		if out.Accept {
			st.Class("deferred-to-C01")
			return nil
		}
		if len(log) != 0 {
			return Violf("the command line is not a sentence of the spec, yet the value types were driven: %v; %s", log, ctx)
		}
		st.Class("outcome:rejected-by-spec")
		return nil
	}
	if cl.Accept != cl.Greedy {
		st.Class("known:" + F3Class)
		return nil
	}
	// accepted by the spec: group the run-time operations per container
	bind := map[string][]string{}
	failed := false
	for k, name := range names {
		ops := filterOps(log, name)
		var ct CType
		var key string
		if k < len(c.D.Opts) {
			ct, key = c.OptTypes[k], d.OptKey(k)
		} else {
			ct, key = c.ArgTypes[k-len(c.D.Opts)], d.ArgKey(k-len(c.D.Opts))
		}
		if len(ops) == 0 {
			continue
		}
		i := 0
		if ct.HasClear {
			if ops[0] != name+":Clear" {
				return Violf("%s has Clear(): it must be cleared exactly once before the command-line values are applied, saw %v; %s", name, ops, ctx)
			}
			i = 1
		}
		if len(ops) == i {
			return Violf("%s was cleared although the command line supplies nothing for it (environment/default content lost): %v; %s", name, ops, ctx)
		}
		for ; i < len(ops); i++ {
			if !strings.HasPrefix(ops[i], name+":Set:") {
				return Violf("%s: unexpected %q among the run-time operations %v (Clear at most once, first); %s", name, ops[i], ops, ctx)
			}
			tok := strings.TrimPrefix(ops[i], name+":Set:")
			bind[key] = append(bind[key], tok)
			if tok == ct.FailOn {
				failed = true
				if i != len(ops)-1 {
					// allowed: the statement only requires the invocation to end as a usage error
					st.Class("outcome:set-called-again-after-an-error")
				}
			}
		}
	}
	if failed {
		if out.Accept || !out.HasErr {
			return Violf("a Set call returned an error, yet the invocation is not a usage error (Action ran=%v err=%q); log %v; %s", out.Accept, out.Err, log, ctx)
		}
		st.Class("outcome:set-error-is-usage-error")
		st.NonTrivial(ctx, func() interface{} { return c19Brief(c, log) })
		return nil
	}
	if !out.Accept || out.HasErr {
		// acceptance of sentences is C01's claim
		st.Class("deferred-to-C01")
		return nil
	}
	if !Verifies(d, c.AST, c.Argv, bind, Quirks{}) &&
		!(c.AST.HasKind(KDD) && Verifies(d, c.AST, c.Argv, bind, Quirks{KeepTainted: true})) &&
		!(hasEnvGroup(d, c.AST) && Verifies(d, c.AST, c.Argv, bind, Quirks{GroupEnvAlone: true, KeepTainted: true})) {
		return Violf("the Set calls %s are not the tokens of any derivation of the command line (each value type must receive exactly the tokens bound to it, in order); log %v; %s", fmtBind(bind), log, ctx)
	}
	st.Class("outcome:accepted")
	nsets, nclear := 0, 0
	for _, e := range log {
		if strings.Contains(e, ":Set:") {
			nsets++
		} else {
			nclear++
		}
	}
	bare := false
	for k := range c.D.Opts {
		if c.OptTypes[k].HasBool && c.OptTypes[k].BoolResult && len(bind[d.OptKey(k)]) > 0 {
			bare = true
		}
		if c.OptTypes[k].HasBool && !c.OptTypes[k].BoolResult {
			st.Class("type:isboolflag-false")
		}
	}
	if bare {
		st.Class("type:flag-like-custom-type-used")
	}
	if nsets >= 2 && nclear >= 1 {
		st.NonTrivial(ctx, func() interface{} { return c19Brief(c, log) })
	}
	return nil
}

// trimOps removes blanks around the token of every Set entry.
func trimOps(ops []string) []string {
	out := make([]string, len(ops))
	for i, op := range ops {
		if k := strings.Index(op, ":Set:"); k >= 0 {
			op = op[:k+5] + strings.TrimSpace(op[k+5:])
		}
		out[i] = op
	}
	return out
}

func c19Brief(c *ProtoCase, log []string) interface{} {
	return map[string]interface{}{"spec": c.SpecStr, "argv": c.Argv, "opt_types": c.OptTypes, "arg_types": c.ArgTypes, "runtime_log": log}
}

func jsonOf(v interface{}) string {
	b, _ := json.Marshal(v)
	return string(b)
}

func init() {
	RegisterReplay("C19", "protocol", func(raw json.RawMessage) *Violation {
		var c ProtoCase
		if err := json.Unmarshal(raw, &c); err != nil {
			return Violf("bad replay file: %v", err)
		}
		return CheckC19(&c, StatsFor("C19.replay"))
	})
}
