package vh

import (
	"encoding/json"
	"errors"
	"flag"
	"fmt"
	"os"
	"strings"
	"unicode/utf8"

	cli "github.com/jawher/mow.cli"
	"github.com/jawher/mow.cli/internal/lexer"
)

// TermCase is the case type of C03: an arbitrary spec string, declarations, argv and environment subsets.
type TermCase struct {
	Spec    []byte    `json:"spec_bytes"`
	Quoted  string    `json:"spec_quoted"`
	Opts    []OptDecl `json:"opts"`
	Args    []string  `json:"args"`
	Argv    []string  `json:"argv"`
	EnvSets [][]int   `json:"env_sets"` // each entry: indices of the options backed by a set variable
	Source  string    `json:"source,omitempty"`
	Nest    bool      `json:"nest,omitempty"` // generator says: repetition over optional / -- / env-backed option
}

// termOutcome runs one (case, env subset).
func termRun(c *TermCase, set []int) (kind string, v *Violation) {
	spec := string(c.Spec)
	var out Outcome
	WithSwap(&out, func() {
		app := cli.App("app", "")
		app.ErrorHandling = flag.ContinueOnError
		for i, o := range c.Opts {
			env := ""
			for _, e := range set {
				if e == i {
					env = EnvName(i)
				}
			}
			if env != "" {
				os.Setenv(env, EnvValue(o))
			}
			if o.Bool {
				app.Var(cli.VarOpt{Name: o.DeclName(), Value: &BRec{}, EnvVar: env})
			} else if i%3 == 1 {
				// a legitimate value type that is neither hashable nor comparable (a map used by value)
				app.Var(cli.VarOpt{Name: o.DeclName(), Value: MapRec{}, EnvVar: env})
			} else if i%3 == 2 {
				app.Var(cli.VarOpt{Name: o.DeclName(), Value: &VRec{}, EnvVar: env})
			} else {
				app.Var(cli.VarOpt{Name: o.DeclName(), Value: &Rec{}, EnvVar: env})
			}
			if env != "" {
				os.Unsetenv(env)
			}
		}
		for i, a := range c.Args {
			if i%2 == 1 {
				app.Var(cli.VarArg{Name: a, Value: MapRec{}})
				continue
			}
			app.Var(cli.VarArg{Name: a, Value: &Rec{}})
		}
		app.Spec = spec
		app.Action = func() { out.Accept = true }
		if err := app.Run(append([]string{"app"}, c.Argv...)); err != nil {
			out.HasErr, out.Err = true, err.Error()
		}
	})
	ctx := fmt.Sprintf("spec %s argv %q env-backed %v", c.Quoted, c.Argv, set)
	if out.Exit != nil {
		return "", Violf("exit(%d) under ContinueOnError: %s", *out.Exit, ctx)
	}
	if out.PanicVal != nil {
		pe, ok := out.PanicVal.(*lexer.ParseError)
		if err, isErr := out.PanicVal.(error); !ok && isErr {
			ok = errors.As(err, &pe) // a spec error wrapped in another error is still the documented outcome
		}
		if !ok {
			return "", Violf("Run died with a runtime panic instead of a documented outcome (%s): %s", out.Panic, ctx)
		}
		if out.Accept {
			return "", Violf("Action ran and then Run panicked with a spec error: %s", ctx)
		}
		if pe.Pos < 0 || pe.Pos > len(spec) {
			return "", Violf("spec error position %d outside the string (len %d): %s", pe.Pos, len(spec), ctx)
		}
		var p interface{}
		func() {
			defer func() { p = recover() }()
			_ = pe.Error()
		}()
		if p != nil {
			return "", Violf("ParseError.Error() panicked (%v): %s", p, ctx)
		}
		return "spec-error", nil
	}
	switch {
	case out.Accept && !out.HasErr:
		return "accepted", nil
	case !out.Accept && out.HasErr:
		return "usage-error", nil
	case !out.Accept && !out.HasErr && HasHelpToken(c.Argv):
		return "help", nil
	}
	return "", Violf("not one of the documented outcomes: Action ran=%v, Run returned err=%q: %s", out.Accept, out.Err, ctx)
}

// CheckC03 runs the case under every listed environment subset.
func CheckC03(c *TermCase, st *Stats) *Violation {
	sets := c.EnvSets
	if len(sets) == 0 {
		sets = [][]int{nil}
	}
	odd := !utf8.Valid(c.Spec)
	for _, b := range c.Spec {
		if b < 0x20 && b != '\t' {
			odd = true
		}
	}
	for _, set := range sets {
		st.Eval()
		Begin("C03", "term", c)
		kind, v := termRun(c, set)
		End()
		if v != nil {
			return v
		}
		st.Class("outcome:" + kind)
		if len(set) > 0 {
			st.Class("env:some-option-backed")
		}
		if c.Nest || odd {
			b, _ := json.Marshal(set)
			st.NonTrivial(c.Quoted+"\x00"+strings.Join(c.Argv, "\x01")+"\x00"+string(b), func() interface{} {
				return map[string]interface{}{"spec": c.Quoted, "argv": c.Argv, "env_backed": set, "outcome": kind, "source": c.Source}
			})
		}
	}
	if c.Nest {
		st.Class("spec:nested-repetition-of-nullable-or-env")
	}
	if odd {
		st.Class("spec:odd-bytes")
	}
	st.Class("source:" + c.Source)
	if len(c.Argv) > 20 {
		st.Class("argv:len>20")
	}
	return nil
}

func init() {
	RegisterReplay("C03", "term", func(raw json.RawMessage) *Violation {
		var c TermCase
		if err := json.Unmarshal(raw, &c); err != nil {
			return Violf("bad replay file: %v", err)
		}
		return CheckC03(&c, StatsFor("C03.replay"))
	})
}

// hasNest: a repetition whose body can match without consuming (optional, --, env-backed option, nested nullable repetition).
func hasNest(d *Decls, n *Node) bool {
	found := false
	n.Walk(func(x *Node) {
		if x.Kind != KRep {
			return
		}
		x.Kids[0].Walk(func(y *Node) {
			switch y.Kind {
			case KOptional, KDD:
				found = true
			case KOpt:
				if d.Opts[y.Opt].Env {
					found = true
				}
			case KGroup:
				for _, o := range y.Group {
					if d.Opts[o].Env {
						found = true
					}
				}
			}
		})
	})
	return found
}

func allIdx(n int) []int {
	out := make([]int, n)
	for i := range out {
		out[i] = i
	}
	return out
}

func quoteBytes(b []byte) string { return fmt.Sprintf("%q", string(b)) }
