package vh

import (
	"testing"

	"pgregory.net/rapid"
)

func subsetsOf(rt *rapid.T, n int) [][]int {
	sets := [][]int{nil}
	return append(sets, genEnvSets(rt, n)...)
}

// pump repeats the tokens of argv until it has between lo and hi tokens.
func pump(rt *rapid.T, argv []string, lo, hi int) []string {
	if len(argv) == 0 {
		return argv
	}
	want := rapid.IntRange(lo, hi).Draw(rt, "pumpto")
	out := append([]string{}, argv...)
	for len(out) < want {
		p := intn(rt, len(argv), "pumpfrom")
		q := p + 1 + intn(rt, len(argv)-p, "pumplen")
		out = append(out, argv[p:q]...)
	}
	return out
}

func TestC03(t *testing.T) {
	st := StatsFor("C03")
	corpus := loadSpecCorpus(t)
	deep := GenCfg{Depth: 5, Env: true, DD: true, Exotic: true}
	rapid.Check(t, func(rt *rapid.T) {
		var c *TermCase
		switch k := intn(rt, 11, "c03source"); {
		case k == 10: // a command with a great many options, some of the late ones env-backed, reached through OPTIONS
			n := rapid.IntRange(50, 90).Draw(rt, "manyopts")
			c = &TermCase{Spec: []byte(rapid.SampledFrom([]string{"[OPTIONS] X", "", "OPTIONS", "[OPTIONS] [X...]"}).Draw(rt, "manyspec")), Args: []string{"X"}, Source: "many-options"}
			for i := 0; i < n; i++ {
				c.Opts = append(c.Opts, OptDecl{Names: []string{"--o" + string(rune('a'+i/26)) + string(rune('a'+i%26))}, Bool: i%3 != 0})
			}
			var set []int
			for i := 0; i < 3; i++ {
				set = append(set, rapid.IntRange(0, n-1).Draw(rt, "envopt"))
			}
			c.EnvSets = [][]int{nil, set, {n - 1}, {n - 1, n - 2, 0}}
			for i, m := 0, rapid.IntRange(0, 4).Draw(rt, "nargv"); i < m; i++ {
				if chance(rt, 1, 2, "useopt") {
					o := c.Opts[rapid.IntRange(0, n-1).Draw(rt, "which")]
					if o.Bool {
						c.Argv = append(c.Argv, o.Names[0])
					} else {
						c.Argv = append(c.Argv, o.Names[0]+"=v")
					}
				} else {
					c.Argv = append(c.Argv, rapid.SampledFrom([]string{"x", "-", "--zzz", "y"}).Draw(rt, "tok"))
				}
			}
		case k < 5: // grammar-derived, nesting turned up
			p := GenProgram(rt, deep)
			argv, _ := GenArgv(rt, p.D, p.AST, deep)
			c = &TermCase{Spec: []byte(p.SpecStr), Opts: p.D.Opts, Argv: argv, Source: "grammar"}
			for _, a := range p.D.Args {
				c.Args = append(c.Args, a.Name)
			}
			for i := range c.Opts {
				c.Opts[i].Env = false
			}
			c.EnvSets = subsetsOf(rt, len(c.Opts))
			all := withEnv(p.D, allIdx(len(p.D.Opts)))
			c.Nest = hasNest(all, p.AST)
			if chance(rt, 1, 6, "pump") {
				// long inputs only where the spec is ambiguity-bounded for them: on an ambiguous spec the library's search is
				// exhaustive by design (polynomial with its visited set, but n^k in the number of option occurrences), and a
				// deadline would not distinguish that from a hang (DESIGN.md, C03 size bounds)
				long := pump(rt, c.Argv, 20, 200)
				probe := &Ref{D: all}
				if v := probe.Run(p.AST, long); !v.Exceeded && probe.Work <= WorkBound {
					c.Argv = long
					c.Source = "grammar-pumped"
				} else {
					st.Class("pump:skipped-ambiguous-spec")
				}
			}
			if c.Source != "grammar-pumped" && chance(rt, 1, 5, "editspec") {
				c.Spec = []byte(mutateSpec(rt, string(c.Spec)))
				c.Source = "grammar-edited"
			}
		case k < 8: // corpus string edited, names declared from the base string
			base := rapid.SampledFrom(corpus).Draw(rt, "corpus")
			onames, args := namesIn(base)
			s := base
			if chance(rt, 2, 3, "edit") {
				s = mutateSpec(rt, s)
			}
			c = &TermCase{Spec: []byte(s), Args: args, Source: "corpus"}
			for _, n := range onames {
				c.Opts = append(c.Opts, OptDecl{Names: []string{n}, Bool: chance(rt, 1, 2, "isflag")})
			}
			d := &Decls{Opts: c.Opts}
			n := rapid.IntRange(0, 6).Draw(rt, "nargv")
			for i := 0; i < n; i++ {
				if len(onames) > 0 && chance(rt, 1, 2, "useopt") {
					c.Argv = append(c.Argv, rapid.SampledFrom(onames).Draw(rt, "oname"))
				} else {
					c.Argv = append(c.Argv, rapid.SampledFrom(Soup).Draw(rt, "soup"))
				}
			}
			_ = d
			c.EnvSets = subsetsOf(rt, len(c.Opts))
		default: // bytes
			n := rapid.IntRange(0, 30).Draw(rt, "len")
			b := make([]byte, n)
			for i := range b {
				if chance(rt, 1, 12, "anybyte") {
					b[i] = rapid.Byte().Draw(rt, "b")
				} else {
					b[i] = c08EditBytes[intn(rt, len(c08EditBytes), "byte")]
				}
			}
			c = &TermCase{Spec: b, Opts: []OptDecl{{Names: []string{"-a", "--aa"}, Bool: true}, {Names: []string{"-b"}, Bool: false}}, Args: []string{"X", "Y"}, Source: "bytes"}
			na := rapid.IntRange(0, 5).Draw(rt, "nargv")
			for i := 0; i < na; i++ {
				c.Argv = append(c.Argv, rapid.SampledFrom(Soup).Draw(rt, "soup"))
			}
			c.EnvSets = [][]int{nil, {0}, {1}, {0, 1}}
		}
		c.Quoted = quoteBytes(c.Spec)
		Report(rt, "C03", "term", c, CheckC03(c, st))
	})
}
