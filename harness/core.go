// Package vh is the verification harness for jawher/mow.cli: reference models, generators,
// adapters around the real library and the bookkeeping every check shares (statistics,
// journal, watchdog, replay files).
package vh

import (
	"encoding/binary"
	"encoding/json"
	"fmt"
	"hash/fnv"
	"os"
	"path/filepath"
	"runtime/debug"
	"sort"
	"strconv"
	"sync"
	"sync/atomic"
	"time"
)

// ---------------------------------------------------------------------------------------------
// statistics
// ---------------------------------------------------------------------------------------------

// Stats collects what one property explored in this process.
type Stats struct {
	mu          sync.Mutex
	Evaluations int64
	Classes     map[string]int64
	Samples     []interface{}
	hashes      map[uint64]struct{}
	extra       int64 // distinct non-trivial cases counted by an enumerator that cannot repeat a case
	nSampleSeen int
}

var (
	statsMu  sync.Mutex
	allStats = map[string]*Stats{}
)

// StatsFor returns the statistics object of a property.
func StatsFor(id string) *Stats {
	statsMu.Lock()
	defer statsMu.Unlock()
	s := allStats[id]
	if s == nil {
		s = &Stats{Classes: map[string]int64{}, hashes: map[uint64]struct{}{}}
		allStats[id] = s
	}
	return s
}

// Eval counts one evaluated case.
func (s *Stats) Eval() {
	s.mu.Lock()
	s.Evaluations++
	s.mu.Unlock()
}

// EvalN counts n evaluated cases.
func (s *Stats) EvalN(n int64) {
	s.mu.Lock()
	s.Evaluations += n
	s.mu.Unlock()
}

// Class increments a class counter.
func (s *Stats) Class(name string) {
	s.mu.Lock()
	s.Classes[name]++
	s.mu.Unlock()
}

// ClassN adds n to a class counter.
func (s *Stats) ClassN(name string, n int64) {
	s.mu.Lock()
	s.Classes[name] += n
	s.mu.Unlock()
}

// Hash64 hashes a canonical key.
func Hash64(key string) uint64 {
	h := fnv.New64a()
	h.Write([]byte(key))
	return h.Sum64()
}

// NonTrivial records one non-trivial case, identified by key (distinctness is by key); sample is
// only evaluated when the case is kept as a sample.
func (s *Stats) NonTrivial(key string, sample func() interface{}) {
	h := Hash64(key)
	s.mu.Lock()
	defer s.mu.Unlock()
	if _, dup := s.hashes[h]; dup {
		return
	}
	s.hashes[h] = struct{}{}
	s.nSampleSeen++
	// keep the first three and then a deterministic thinning (by hash) up to eight
	if len(s.Samples) < 3 || (len(s.Samples) < 8 && h%257 == 0) {
		s.Samples = append(s.Samples, sample())
	}
}

// NonTrivialHash records an already hashed non-trivial case (exhaustive enumerations).
func (s *Stats) NonTrivialHash(h uint64) bool {
	s.mu.Lock()
	defer s.mu.Unlock()
	if _, dup := s.hashes[h]; dup {
		return false
	}
	s.hashes[h] = struct{}{}
	return true
}

// AddDistinct adds n non-trivial cases that are distinct by construction (exhaustive enumeration).
func (s *Stats) AddDistinct(n int64) {
	s.mu.Lock()
	s.extra += n
	s.mu.Unlock()
}

// AddSample stores a sample unconditionally (bounded).
func (s *Stats) AddSample(v interface{}) {
	s.mu.Lock()
	defer s.mu.Unlock()
	if len(s.Samples) < 10 {
		s.Samples = append(s.Samples, v)
	}
}

type statsOut struct {
	Evaluations int64            `json:"evaluations"`
	Distinct    int              `json:"distinct_nontrivial_in_shard"`
	Extra       int64            `json:"distinct_by_construction"`
	Classes     map[string]int64 `json:"classes"`
	Samples     []interface{}    `json:"samples"`
}

// FlushStats writes <prefix>.json and <prefix>.<id>.hashes for every property touched.
func FlushStats() {
	prefix := os.Getenv("VERIF_OUT")
	if prefix == "" {
		return
	}
	statsMu.Lock()
	defer statsMu.Unlock()
	out := map[string]statsOut{}
	for id, s := range allStats {
		s.mu.Lock()
		out[id] = statsOut{s.Evaluations, len(s.hashes), s.extra, s.Classes, s.Samples}
		buf := make([]byte, 0, 8*len(s.hashes))
		hs := make([]uint64, 0, len(s.hashes))
		for h := range s.hashes {
			hs = append(hs, h)
		}
		sort.Slice(hs, func(i, j int) bool { return hs[i] < hs[j] })
		for _, h := range hs {
			buf = binary.LittleEndian.AppendUint64(buf, h)
		}
		s.mu.Unlock()
		_ = os.WriteFile(prefix+"."+id+".hashes", buf, 0o644)
	}
	b, _ := json.Marshal(out)
	_ = os.WriteFile(prefix+".json", b, 0o644)
}

// ---------------------------------------------------------------------------------------------
// journal + watchdog (crashes and hangs cannot be caught in process)
// ---------------------------------------------------------------------------------------------

var (
	journalFile  *os.File
	caseStart    atomic.Int64 // unix nanos of the running library call, 0 = none
	caseDeadline = 10 * time.Second
	// enumerators that make millions of tiny library calls do not journal each one: they publish the current input
	// through SetCurrent and the watchdog aborts when the input has not changed for the deadline
	currentInput atomic.Pointer[currentCase]
)

type currentCase struct {
	property, kind string
	mk             func() interface{}
	since          int64
}

// SetCurrent publishes the input an enumerator is about to hand to the library (nil = none).
func SetCurrent(property, kind string, mk func() interface{}) {
	if mk == nil {
		currentInput.Store(nil)
		return
	}
	currentInput.Store(&currentCase{property, kind, mk, time.Now().UnixNano()})
}

// Envelope is what journal, pending-failure and replay files contain.
type Envelope struct {
	Property string          `json:"property"`
	Kind     string          `json:"kind"` // which check function inside the property
	Message  string          `json:"message,omitempty"`
	Case     json.RawMessage `json:"case"`
}

// Setup is called from TestMain.
func Setup() {
	debug.SetMaxStack(64 << 20)
	if d := os.Getenv("VERIF_CASE_DEADLINE"); d != "" {
		if v, err := time.ParseDuration(d); err == nil {
			caseDeadline = v
		}
	}
	if p := os.Getenv("VERIF_JOURNAL"); p != "" {
		f, err := os.OpenFile(p, os.O_CREATE|os.O_RDWR|os.O_TRUNC, 0o644)
		if err == nil {
			journalFile = f
		}
	}
	go func() {
		for {
			time.Sleep(250 * time.Millisecond)
			if cur := currentInput.Load(); cur != nil && time.Since(time.Unix(0, cur.since)) > caseDeadline {
				Begin(cur.property, cur.kind, cur.mk()) // journal the stuck input
				caseStart.Store(cur.since)
			}
			st := caseStart.Load()
			if st != 0 && time.Since(time.Unix(0, st)) > caseDeadline {
				if p := os.Getenv("VERIF_JOURNAL"); p != "" {
					_ = os.WriteFile(p+".hang", []byte("deadline exceeded\n"), 0o644)
				}
				fmt.Fprintf(os.Stdout, "WATCHDOG: one library call exceeded %v\n", caseDeadline)
				os.Exit(97)
			}
		}
	}()
}

// Begin journals the case about to be handed to the library and arms the watchdog.
func Begin(property, kind string, c interface{}) {
	if journalFile != nil {
		raw, err := json.Marshal(c)
		if err == nil {
			b, _ := json.Marshal(Envelope{Property: property, Kind: kind, Case: raw})
			_ = journalFile.Truncate(0)
			_, _ = journalFile.WriteAt(b, 0)
		}
	}
	caseStart.Store(time.Now().UnixNano())
}

// End disarms the watchdog.
func End() { caseStart.Store(0) }

// ---------------------------------------------------------------------------------------------
// failures
// ---------------------------------------------------------------------------------------------

// Fataler is the part of testing.T / rapid.T the harness needs.
type Fataler interface {
	Fatalf(format string, args ...interface{})
	Helper()
}

// Violation is returned by check functions.
type Violation struct {
	Msg string
}

func (v *Violation) Error() string { return v.Msg }

// Violf builds a violation.
func Violf(format string, a ...interface{}) *Violation {
	return &Violation{Msg: fmt.Sprintf(format, a...)}
}

// Report saves the failing case (the last one saved is the one rapid shrank to) and fails the test.
func Report(t Fataler, property, kind string, c interface{}, v *Violation) {
	t.Helper()
	if v == nil {
		return
	}
	SaveFailure(property, kind, c, v.Msg)
	t.Fatalf("%s/%s: %s", property, kind, v.Msg)
}

// SaveFailure writes the pending failure file for the driver.
func SaveFailure(property, kind string, c interface{}, msg string) {
	dir := os.Getenv("VERIF_FAILDIR")
	if dir == "" {
		return
	}
	raw, err := json.Marshal(c)
	if err != nil {
		raw = []byte(strconv.Quote(fmt.Sprintf("%#v", c)))
	}
	b, _ := json.MarshalIndent(Envelope{Property: property, Kind: kind, Message: msg, Case: raw}, "", " ")
	name := fmt.Sprintf("%s.%s.pending.json", property, os.Getenv("VERIF_SHARD"))
	_ = os.WriteFile(filepath.Join(dir, name), b, 0o644)
}

// SaveFailureAs records that a replayed file failed again (the file itself is the replay).
func SaveFailureAs(path, property, kind string, raw json.RawMessage, msg string) {
	dir := os.Getenv("VERIF_FAILDIR")
	if dir == "" {
		return
	}
	b, _ := json.MarshalIndent(map[string]interface{}{"property": property, "kind": kind, "message": msg, "replay_of": path, "case": raw}, "", " ")
	name := fmt.Sprintf("%s.replay-%x.pending.json", property, Hash64(path))
	_ = os.WriteFile(filepath.Join(dir, name), b, 0o644)
}

// ---------------------------------------------------------------------------------------------
// known findings (read only)
// ---------------------------------------------------------------------------------------------

// KnownFinding is one entry of /verif/known-findings.json.
type KnownFinding struct {
	ID       string          `json:"id"`
	Status   string          `json:"status"` // "known" or "fixed"
	Property []string        `json:"properties"`
	Class    string          `json:"class"` // predicate implemented in the harness
	What     string          `json:"what"`
	Commit   string          `json:"commit,omitempty"`
	Pinned   json.RawMessage `json:"pinned,omitempty"`
}

var (
	knownOnce sync.Once
	knownList []KnownFinding
)

// Known returns the list of findings.
func Known() []KnownFinding {
	knownOnce.Do(func() {
		p := os.Getenv("VERIF_KNOWN")
		if p == "" {
			p = "/verif/known-findings.json"
		}
		b, err := os.ReadFile(p)
		if err != nil {
			return
		}
		var f struct {
			Findings []KnownFinding `json:"findings"`
		}
		if json.Unmarshal(b, &f) == nil {
			knownList = f.Findings
		}
	})
	return knownList
}

// KnownClass reports whether a finding class is listed as known (not fixed) for the property.
func KnownClass(property, class string) bool {
	if os.Getenv("VERIF_IGNORE_KNOWN") != "" {
		return false
	}
	for _, k := range Known() {
		if k.Status != "known" || k.Class != class {
			continue
		}
		for _, p := range k.Property {
			if p == property {
				return true
			}
		}
	}
	return false
}

// KnownClassAny reports whether a finding class is listed as known for any property.
func KnownClassAny(class string) bool {
	if os.Getenv("VERIF_IGNORE_KNOWN") != "" {
		return false
	}
	for _, k := range Known() {
		if k.Status == "known" && k.Class == class {
			return true
		}
	}
	return false
}

// EnvInt reads an integer knob.
func EnvInt(name string, def int) int {
	if s := os.Getenv(name); s != "" {
		if v, err := strconv.Atoi(s); err == nil {
			return v
		}
	}
	return def
}

func readFile(p string) ([]byte, error) { return os.ReadFile(p) }
