package vh

import (
	"testing"

	"pgregory.net/rapid"
)

func TestC04(t *testing.T) {
	st := StatsFor("C04")
	mode := TreeGenMode{Help: 0, Bad: 0, Garbage: 1, Version: 0, Mutate: 2, Policies: false, SubVersion: true}
	rapid.Check(t, func(rt *rapid.T) {
		c := GenTreeCase(rt, mode)
		Report(rt, "C04", "tree", c, CheckTree("C04", c, st))
	})
}

func TestC07(t *testing.T) {
	st := StatsFor("C07")
	mode := TreeGenMode{Help: 0, Bad: 2, Garbage: 2, Version: 0, Mutate: 4, Policies: true, SubPol: 3}
	rapid.Check(t, func(rt *rapid.T) {
		c := GenTreeCase(rt, mode)
		Report(rt, "C07", "tree", c, CheckTree("C07", c, st))
	})
}

func TestC14(t *testing.T) {
	st := StatsFor("C14")
	mode := TreeGenMode{Help: 7, Bad: 1, Garbage: 1, Version: 2, Mutate: 4, Policies: true, SubPol: 2, Warmup: 6}
	rapid.Check(t, func(rt *rapid.T) {
		c := GenTreeCase(rt, mode)
		Report(rt, "C14", "tree", c, CheckTree("C14", c, st))
	})
}

// TestC07Values: conversion failures of the built-in typed containers (not only of custom value types) follow the policy.
func TestC07Values(t *testing.T) {
	st := StatsFor("C07")
	mode := ValueGenMode{EnvChance: 2, CliMax: 3, ValidOnly: false, CliZero: 1}
	rapid.Check(t, func(rt *rapid.T) {
		c := GenValueCase(rt, mode)
		c.Policy = intn(rt, 3, "policy")
		Report(rt, "C07", "valuespolicy", c, CheckValuesPolicy(c, st))
	})
}
