package vh

import (
	"encoding/base64"
	"encoding/json"
	"fmt"
	"math"
	"reflect"
	"strconv"
	"strings"
	"unicode/utf8"

	cli "github.com/jawher/mow.cli"
	"pgregory.net/rapid"
)

// Value types.
const (
	TBool = iota
	TString
	TInt
	TFloat
	TStrings
	TInts
	TFloats
)

var typeNames = []string{"bool", "string", "int", "float64", "[]string", "[]int", "[]float64"}

// EnvVar state of one listed variable.
type EnvVar struct {
	Set bool   `json:"set"`
	Val string `json:"val"`
}

// CliVal is one value given on the command line and how it is spelled.
type CliVal struct {
	Tok  string `json:"tok"`
	Form int    `json:"form"` // options: 0 --long=TOK, 1 -s=TOK, 2 -s TOK, 3 -sTOK, 4 --long TOK, 5 bare flag (bool only)
}

type cliValJSON struct {
	Tok    string `json:"tok"`
	TokB64 string `json:"tok_b64,omitempty"` // set when the token is not valid UTF-8 (JSON strings cannot carry it)
	Form   int    `json:"form"`
}

// MarshalJSON keeps tokens that are not valid UTF-8 intact.
func (c CliVal) MarshalJSON() ([]byte, error) {
	j := cliValJSON{Tok: c.Tok, Form: c.Form}
	if !utf8.ValidString(c.Tok) {
		j.Tok = fmt.Sprintf("%q", c.Tok)
		j.TokB64 = base64.StdEncoding.EncodeToString([]byte(c.Tok))
	}
	return json.Marshal(j)
}

// UnmarshalJSON is the inverse.
func (c *CliVal) UnmarshalJSON(b []byte) error {
	var j cliValJSON
	if err := json.Unmarshal(b, &j); err != nil {
		return err
	}
	c.Tok, c.Form = j.Tok, j.Form
	if j.TokB64 != "" {
		raw, err := base64.StdEncoding.DecodeString(j.TokB64)
		if err != nil {
			return err
		}
		c.Tok = string(raw)
	}
	return nil
}

type envVarJSON struct {
	Set    bool   `json:"set"`
	Val    string `json:"val"`
	ValB64 string `json:"val_b64,omitempty"`
}

// MarshalJSON keeps values that are not valid UTF-8 intact.
func (e EnvVar) MarshalJSON() ([]byte, error) {
	j := envVarJSON{Set: e.Set, Val: e.Val}
	if !utf8.ValidString(e.Val) {
		j.Val = fmt.Sprintf("%q", e.Val)
		j.ValB64 = base64.StdEncoding.EncodeToString([]byte(e.Val))
	}
	return json.Marshal(j)
}

// UnmarshalJSON is the inverse.
func (e *EnvVar) UnmarshalJSON(b []byte) error {
	var j envVarJSON
	if err := json.Unmarshal(b, &j); err != nil {
		return err
	}
	e.Set, e.Val = j.Set, j.Val
	if j.ValB64 != "" {
		raw, err := base64.StdEncoding.DecodeString(j.ValB64)
		if err != nil {
			return err
		}
		e.Val = string(raw)
	}
	return nil
}

// VContainer is one option or argument of a value case.
type VContainer struct {
	Typ     int      `json:"typ"`
	IsArg   bool     `json:"is_arg"`
	Default []string `json:"default"` // tokens valid for the type (one for single-valued types)
	Env     []EnvVar `json:"env"`
	Cli     []CliVal `json:"cli"`
	// UsePtr: declared through the *Ptr API (BoolPtr(&into, ...)) instead of the value-returning one
	UsePtr bool `json:"use_ptr,omitempty"`
	// Prefill: (with UsePtr) the target variable already holds something when it is declared - the declared default replaces it
	Prefill bool `json:"prefill,omitempty"`
	// EnvSep: separator between the names of the environment list ("" = one blank; any white space separates names)
	EnvSep string `json:"env_sep,omitempty"`
	// Cli2: values given on a SECOND command line run on the same application object (ValueCase.Second)
	Cli2 []CliVal `json:"cli2,omitempty"`
}

// ValueCase is the case type of C06, C13 and C15.
type ValueCase struct {
	EnvPrefix string       `json:"env_prefix,omitempty"`
	Cs        []VContainer `json:"containers"` // options first (at most 2), then at most one argument
	OptsSpec  int          `json:"opts_spec"`  // 0 [OPTIONS], 1 one optional repetition per option
	ArgDD     bool         `json:"arg_dd"`     // argument part written "[-- X...]" (else "[X...]")
	WriteDD   bool         `json:"write_dd"`   // an explicit -- precedes the argument tokens
	// ShareDefaults: multi-valued containers of the same type whose declared defaults are equal are declared
	// with the very same slice (as a program holding one package-level default would do)
	ShareDefaults bool `json:"share_defaults,omitempty"`
	// Second: after the first command line, a second one (built from the containers' Cli2) is parsed by the same
	// application object; a container given values again must hold exactly those
	Second bool `json:"second,omitempty"`
	// Policy: error handling policy of the app (C07 runs typed conversion failures under all three)
	Policy int `json:"policy,omitempty"`
	// persist keeps the shared default slices across rebuilds of the same case (C20: a program holding its defaults in package-level variables)
	persist sharedSlices
}

func multi(typ int) bool { return typ >= TStrings }

func elemType(typ int) int {
	if typ >= TStrings {
		return typ - 3
	}
	return typ
}

// parseTyped is the oracle: Go's strconv.
func parseTyped(typ int, s string) (interface{}, bool) {
	switch elemType(typ) {
	case TBool:
		b, err := strconv.ParseBool(s)
		return b, err == nil
	case TString:
		return s, true
	case TInt:
		i, err := strconv.ParseInt(s, 10, 64)
		return int(i), err == nil
	default:
		f, err := strconv.ParseFloat(s, 64)
		return f, err == nil
	}
}

func eqVal(a, b interface{}) bool {
	if fa, ok := a.(float64); ok {
		fb, ok := b.(float64)
		return ok && math.Float64bits(fa) == math.Float64bits(fb)
	}
	return reflect.DeepEqual(a, b)
}

func eqVals(a, b []interface{}) bool {
	if len(a) != len(b) {
		return false
	}
	for i := range a {
		if !eqVal(a[i], b[i]) {
			return false
		}
	}
	return true
}

var optLetters = []string{"o", "p"}
var optLongs = []string{"opt", "popt"}

func vEnvName(ci, ei int) string { return fmt.Sprintf("VERIF_V_%d_%d", ci, ei) }

// Expectation of one container.
type vExpect struct {
	vals     []interface{}
	src      string // cli, env, default
	cliErr   bool   // a command-line token does not parse
	f9       bool   // recorded finding class F9
	byUser   bool
	envValid bool
}

func expectContainer(c *VContainer) vExpect {
	var e vExpect
	if len(c.Cli) > 0 {
		e.src, e.byUser = "cli", true
		for _, cv := range c.Cli {
			tok := cv.Tok
			if cv.Form == 5 {
				tok = "true"
			}
			v, ok := parseTyped(c.Typ, tok)
			if !ok {
				e.cliErr = true
				return e
			}
			e.vals = append(e.vals, v)
		}
		if !multi(c.Typ) {
			e.vals = e.vals[len(e.vals)-1:]
		}
		return e
	}
	e.src = "default"
	for _, d := range c.Default {
		v, _ := parseTyped(c.Typ, d)
		e.vals = append(e.vals, v)
	}
	sawInvalid := false
	for _, ev := range c.Env {
		if !ev.Set || ev.Val == "" {
			continue
		}
		if !multi(c.Typ) {
			if v, ok := parseTyped(c.Typ, ev.Val); ok {
				e.vals, e.src, e.envValid = []interface{}{v}, "env", true
				return e
			}
			sawInvalid = true
			continue
		}
		var vs []interface{}
		ok := true
		for _, p := range strings.Split(ev.Val, ",") {
			v, pok := parseTyped(c.Typ, strings.TrimSpace(p))
			if !pok {
				ok = false
				break
			}
			vs = append(vs, v)
		}
		if ok {
			e.vals, e.src, e.envValid = vs, "env", true
			return e
		}
		sawInvalid = true
	}
	if multi(c.Typ) && sawInvalid && len(c.Default) > 0 {
		e.f9 = true
	}
	return e
}

// F9Class is the class name of the recorded finding.
const F9Class = "F9-multivalued-env-wipes-default"

type vHolder struct {
	get func() []interface{}
	set *bool
}

// sharedSlices hands out one slice object per (type, default tokens) within one app build.
type sharedSlices map[string]interface{}

func (sh sharedSlices) get(typ int, toks []string, mk func() interface{}) interface{} {
	if sh == nil {
		return mk()
	}
	k := fmt.Sprintf("%d %q", typ, toks) // %q: [""] and [] are different defaults
	if v, ok := sh[k]; ok {
		return v
	}
	v := mk()
	sh[k] = v
	return v
}

func declareValue(app *cli.Cli, ci int, c *VContainer, nopt *int, prefix string, sh sharedSlices) vHolder {
	var envNames []string
	for ei, ev := range c.Env {
		n := prefix + vEnvName(ci, ei)
		envNames = append(envNames, n)
		if ev.Set {
			setenv(n, ev.Val)
		} else {
			unsetenv(n)
		}
	}
	defer func() {
		for _, n := range envNames {
			unsetenv(n)
		}
	}()
	sep := c.EnvSep
	if sep == "" {
		sep = " "
	}
	envList := strings.Join(envNames, sep)
	set := new(bool)
	name := "X"
	if !c.IsArg {
		name = optLetters[*nopt] + " " + optLongs[*nopt]
		*nopt++
	}
	one := func(v interface{}) []interface{} { return []interface{}{v} }
	def := func(i int) interface{} { v, _ := parseTyped(c.Typ, c.Default[i]); return v }
	switch c.Typ {
	case TBool:
		var p *bool
		switch {
		case c.IsArg && c.UsePtr:
			p = new(bool)
			app.BoolPtr(p, cli.BoolArg{Name: name, Value: def(0).(bool), EnvVar: envList, SetByUser: set})
		case c.IsArg:
			p = app.Bool(cli.BoolArg{Name: name, Value: def(0).(bool), EnvVar: envList, SetByUser: set})
		case c.UsePtr:
			p = new(bool)
			app.BoolPtr(p, cli.BoolOpt{Name: name, Value: def(0).(bool), EnvVar: envList, SetByUser: set})
		default:
			p = app.Bool(cli.BoolOpt{Name: name, Value: def(0).(bool), EnvVar: envList, SetByUser: set})
		}
		return vHolder{func() []interface{} { return one(*p) }, set}
	case TString:
		var p *string
		switch {
		case c.IsArg && c.UsePtr:
			p = new(string)
			app.StringPtr(p, cli.StringArg{Name: name, Value: def(0).(string), EnvVar: envList, SetByUser: set})
		case c.IsArg:
			p = app.String(cli.StringArg{Name: name, Value: def(0).(string), EnvVar: envList, SetByUser: set})
		case c.UsePtr:
			p = new(string)
			app.StringPtr(p, cli.StringOpt{Name: name, Value: def(0).(string), EnvVar: envList, SetByUser: set})
		default:
			p = app.String(cli.StringOpt{Name: name, Value: def(0).(string), EnvVar: envList, SetByUser: set})
		}
		return vHolder{func() []interface{} { return one(*p) }, set}
	case TInt:
		var p *int
		switch {
		case c.IsArg && c.UsePtr:
			p = new(int)
			app.IntPtr(p, cli.IntArg{Name: name, Value: def(0).(int), EnvVar: envList, SetByUser: set})
		case c.IsArg:
			p = app.Int(cli.IntArg{Name: name, Value: def(0).(int), EnvVar: envList, SetByUser: set})
		case c.UsePtr:
			p = new(int)
			app.IntPtr(p, cli.IntOpt{Name: name, Value: def(0).(int), EnvVar: envList, SetByUser: set})
		default:
			p = app.Int(cli.IntOpt{Name: name, Value: def(0).(int), EnvVar: envList, SetByUser: set})
		}
		return vHolder{func() []interface{} { return one(*p) }, set}
	case TFloat:
		var p *float64
		switch {
		case c.IsArg && c.UsePtr:
			p = new(float64)
			app.Float64Ptr(p, cli.Float64Arg{Name: name, Value: def(0).(float64), EnvVar: envList, SetByUser: set})
		case c.IsArg:
			p = app.Float64(cli.Float64Arg{Name: name, Value: def(0).(float64), EnvVar: envList, SetByUser: set})
		case c.UsePtr:
			p = new(float64)
			app.Float64Ptr(p, cli.Float64Opt{Name: name, Value: def(0).(float64), EnvVar: envList, SetByUser: set})
		default:
			p = app.Float64(cli.Float64Opt{Name: name, Value: def(0).(float64), EnvVar: envList, SetByUser: set})
		}
		return vHolder{func() []interface{} { return one(*p) }, set}
	case TStrings:
		d := sh.get(c.Typ, c.Default, func() interface{} {
			d := make([]string, 0, len(c.Default)+4) // spare capacity: an append into a shared default would alias
			for i := range c.Default {
				d = append(d, def(i).(string))
			}
			return d
		}).([]string)
		var p *[]string
		switch {
		case c.IsArg && c.UsePtr:
			p = new([]string)
			if c.Prefill {
				*p = []string{"stale1", "stale2"}
			}
			app.StringsPtr(p, cli.StringsArg{Name: name, Value: d, EnvVar: envList, SetByUser: set})
		case c.IsArg:
			p = app.Strings(cli.StringsArg{Name: name, Value: d, EnvVar: envList, SetByUser: set})
		case c.UsePtr:
			p = new([]string)
			if c.Prefill {
				*p = []string{"stale1", "stale2"}
			}
			app.StringsPtr(p, cli.StringsOpt{Name: name, Value: d, EnvVar: envList, SetByUser: set})
		default:
			p = app.Strings(cli.StringsOpt{Name: name, Value: d, EnvVar: envList, SetByUser: set})
		}
		return vHolder{func() (o []interface{}) {
			for _, v := range *p {
				o = append(o, v)
			}
			return
		}, set}
	case TInts:
		d := sh.get(c.Typ, c.Default, func() interface{} {
			d := make([]int, 0, len(c.Default)+4) // spare capacity: an append into a shared default would alias
			for i := range c.Default {
				d = append(d, def(i).(int))
			}
			return d
		}).([]int)
		var p *[]int
		switch {
		case c.IsArg && c.UsePtr:
			p = new([]int)
			if c.Prefill {
				*p = []int{-77, -78}
			}
			app.IntsPtr(p, cli.IntsArg{Name: name, Value: d, EnvVar: envList, SetByUser: set})
		case c.IsArg:
			p = app.Ints(cli.IntsArg{Name: name, Value: d, EnvVar: envList, SetByUser: set})
		case c.UsePtr:
			p = new([]int)
			if c.Prefill {
				*p = []int{-77, -78}
			}
			app.IntsPtr(p, cli.IntsOpt{Name: name, Value: d, EnvVar: envList, SetByUser: set})
		default:
			p = app.Ints(cli.IntsOpt{Name: name, Value: d, EnvVar: envList, SetByUser: set})
		}
		return vHolder{func() (o []interface{}) {
			for _, v := range *p {
				o = append(o, v)
			}
			return
		}, set}
	default:
		d := sh.get(c.Typ, c.Default, func() interface{} {
			d := make([]float64, 0, len(c.Default)+4) // spare capacity: an append into a shared default would alias
			for i := range c.Default {
				d = append(d, def(i).(float64))
			}
			return d
		}).([]float64)
		var p *[]float64
		switch {
		case c.IsArg && c.UsePtr:
			p = new([]float64)
			if c.Prefill {
				*p = []float64{-7.5}
			}
			app.Floats64Ptr(p, cli.Floats64Arg{Name: name, Value: d, EnvVar: envList, SetByUser: set})
		case c.IsArg:
			p = app.Floats64(cli.Floats64Arg{Name: name, Value: d, EnvVar: envList, SetByUser: set})
		case c.UsePtr:
			p = new([]float64)
			if c.Prefill {
				*p = []float64{-7.5}
			}
			app.Floats64Ptr(p, cli.Floats64Opt{Name: name, Value: d, EnvVar: envList, SetByUser: set})
		default:
			p = app.Floats64(cli.Floats64Opt{Name: name, Value: d, EnvVar: envList, SetByUser: set})
		}
		return vHolder{func() (o []interface{}) {
			for _, v := range *p {
				o = append(o, v)
			}
			return
		}, set}
	}
}

// valueSpecArgv2 renders the second command line of a case.
func valueSpecArgv2(c *ValueCase) []string {
	c2 := *c
	c2.Cs = nil
	for _, vc := range c.Cs {
		vc.Cli = vc.Cli2
		c2.Cs = append(c2.Cs, vc)
	}
	_, argv := valueSpecArgv(&c2)
	return argv
}

// valueSpecArgv renders the spec and the argument vector of a case.
func valueSpecArgv(c *ValueCase) (string, []string) {
	var spec []string
	var argv []string
	nopt := 0
	var argC *VContainer
	for i := range c.Cs {
		vc := &c.Cs[i]
		if vc.IsArg {
			argC = vc
			continue
		}
		s, l := "-"+optLetters[nopt], "--"+optLongs[nopt]
		nopt++
		if c.OptsSpec == 1 {
			spec = append(spec, "["+s+"...]")
		}
		for _, cv := range vc.Cli {
			switch cv.Form {
			case 0:
				argv = append(argv, l+"="+cv.Tok)
			case 1:
				argv = append(argv, s+"="+cv.Tok)
			case 2:
				argv = append(argv, s, cv.Tok)
			case 3:
				argv = append(argv, s+cv.Tok)
			case 4:
				argv = append(argv, l, cv.Tok)
			default:
				argv = append(argv, l)
			}
		}
	}
	if c.OptsSpec == 0 && nopt > 0 {
		spec = []string{"[OPTIONS]"}
	}
	if argC != nil {
		x := "X"
		if multi(argC.Typ) {
			x = "X..."
		}
		if c.ArgDD {
			spec = append(spec, "[-- "+x+"]")
		} else {
			spec = append(spec, "["+x+"]")
		}
		if len(argC.Cli) > 0 && c.WriteDD {
			argv = append(argv, "--")
		}
		for _, cv := range argC.Cli {
			argv = append(argv, cv.Tok)
		}
	}
	return strings.Join(spec, " "), argv
}

// ValueResult is what the checks need to book classes.
type ValueResult struct {
	Exp      []vExpect
	Accepted bool
}

// CheckValues builds the app, runs it and compares every container with the precedence rule, strconv and SetByUser.
func CheckValues(prop string, c *ValueCase, st *Stats) (*Violation, *ValueResult) {
	st.Eval()
	spec, argv := valueSpecArgv(c)
	res := &ValueResult{}
	anyCliErr := false
	for i := range c.Cs {
		e := expectContainer(&c.Cs[i])
		res.Exp = append(res.Exp, e)
		anyCliErr = anyCliErr || e.cliErr
	}
	var out Outcome
	var got [][]interface{}
	var gotSet []bool
	Begin(prop, "values", c)
	var rerun func(out2 *Outcome, argv2 []string) ([][]interface{}, []bool)
	WithSwap(&out, func() { got, gotSet, rerun = runValuesInner(&out, c) })
	defer End()
	ctx := fmt.Sprintf("spec %q argv %q containers %s", spec, argv, describeContainers(c))
	if out.Panic != "" || out.Exit != nil {
		return Violf("Run panicked/exited (%s %s); %s", out.Panic, fmtExit(out.Exit), ctx), res
	}
	// which property owns which clause: acceptance and agreement with strconv are C13's, the source of each value C06's,
	// the SetByUser flags C15's; a check only reports what its own statement says
	ownsAcceptance := prop == "C13"
	ownsValues := prop == "C06" || prop == "C13"
	ownsFlags := prop == "C15"
	if anyCliErr {
		if out.Accept || !out.HasErr {
			if !ownsAcceptance {
				st.Class("deferred-to-C13")
				return nil, res
			}
			return Violf("a command-line token that strconv rejects must make the invocation a usage error (Action ran=%v, err=%q); %s", out.Accept, out.Err, ctx), res
		}
		st.Class("outcome:usage-error-unparsable-token")
		return nil, res
	}
	if !out.Accept || out.HasErr {
		if !ownsAcceptance {
			st.Class("deferred-to-C13")
			return nil, res
		}
		return Violf("every command-line token parses with strconv, yet the invocation was rejected (%q); %s", out.Err, ctx), res
	}
	res.Accepted = true
	for i := range c.Cs {
		e := res.Exp[i]
		vc := &c.Cs[i]
		what := fmt.Sprintf("container %d (%s %s)", i, kindName(vc), typeNames[vc.Typ])
		if ownsFlags && gotSet[i] != e.byUser {
			return Violf("%s: SetByUser=%v but the command line supplied %d value(s); %s", what, gotSet[i], len(vc.Cli), ctx), res
		}
		if !ownsValues {
			st.Class("source:" + e.src)
			continue
		}
		if prop == "C13" && e.src == "default" && !anyEnvToken(vc) {
			// no token was converted for this container: nothing C13 speaks about
			st.Class("source:default-without-any-token")
			continue
		}
		if e.f9 {
			if eqVals(got[i], e.vals) {
				st.Class("f9-class:holds-default")
				continue
			}
			if len(got[i]) == 0 && KnownClassAny(F9Class) {
				st.Class("known:" + F9Class)
				continue
			}
		}
		if !eqVals(got[i], e.vals) {
			return Violf("%s: holds %v, expected %v from source %q (command line, then first non-empty valid environment variable, then default); %s", what, got[i], e.vals, e.src, ctx), res
		}
		st.Class("source:" + e.src)
	}
	if c.Second && rerun != nil && prop == "C15" {
		// a second command line on the same application object: whatever it supplies a value for must (still) be flagged;
		// nothing is said about a container flagged by the first command line and not written again
		argv2 := valueSpecArgv2(c)
		var out2 Outcome
		var set2 []bool
		WithSwap(&out2, func() { _, set2 = rerun(&out2, argv2) })
		if out2.Panic == "" && out2.Accept && !out2.HasErr {
			for i := range c.Cs {
				if len(c.Cs[i].Cli2) > 0 && !set2[i] {
					return Violf("container %d: SetByUser=false after a second command line %q (same application object, first: %q) that supplies a value for it; spec %q containers %s", i, argv2, argv, spec, describeContainers(c)), res
				}
			}
			st.Class("sequence:second-command-line-on-same-app")
		}
	}
	if c.Second && rerun != nil && prop == "C06" {
		// a second command line on the same application object: whatever is given again replaces what the variable held
		argv2 := valueSpecArgv2(c)
		var out2 Outcome
		var got2 [][]interface{}
		WithSwap(&out2, func() { got2, _ = rerun(&out2, argv2) })
		ctx2 := fmt.Sprintf("second command line %q on the same application object (first: %q); spec %q containers %s", argv2, argv, spec, describeContainers(c))
		if out2.Panic != "" || !out2.Accept || out2.HasErr {
			return Violf("the second command line is valid (every token converts), yet: Action ran=%v err=%q panic=%q; %s", out2.Accept, out2.Err, out2.Panic, ctx2), res
		}
		for i := range c.Cs {
			vc := c.Cs[i]
			if len(vc.Cli2) == 0 {
				continue
			}
			vc.Cli = vc.Cli2
			e2 := expectContainer(&vc)
			if !eqVals(got2[i], e2.vals) {
				return Violf("container %d (%s %s) holds %v after the second command line, expected exactly the values given there %v; %s", i, kindName(&vc), typeNames[vc.Typ], got2[i], e2.vals, ctx2), res
			}
		}
		st.Class("sequence:second-command-line-on-same-app")
	}
	return nil, res
}

// anyEnvToken: some listed environment variable of the container holds a non-empty value.
func anyEnvToken(vc *VContainer) bool {
	for _, ev := range vc.Env {
		if ev.Set && ev.Val != "" {
			return true
		}
	}
	return false
}

// RunValuesInner builds and runs the app of a value case without touching the package level streams.
func RunValuesInner(out *Outcome, c *ValueCase) (got [][]interface{}, gotSet []bool) {
	got, gotSet, _ = runValuesInner(out, c)
	return
}

// runValuesInner also returns a function that parses another command line with the same application object.
func runValuesInner(out *Outcome, c *ValueCase) (got [][]interface{}, gotSet []bool, rerun func(out2 *Outcome, argv2 []string) ([][]interface{}, []bool)) {
	spec, argv := valueSpecArgv(c)
	var hs []vHolder
	app := cli.App("app", "")
	app.ErrorHandling = policies[c.Policy]
	nopt := 0
	var sh sharedSlices
	if c.ShareDefaults {
		sh = c.persist
		if sh == nil {
			sh = sharedSlices{}
		}
	}
	for i := range c.Cs {
		hs = append(hs, declareValue(app, i, &c.Cs[i], &nopt, c.EnvPrefix, sh))
	}
	app.Spec = spec
	app.Action = func() {
		out.Accept = true
		for _, h := range hs {
			got = append(got, h.get())
			gotSet = append(gotSet, *h.set)
		}
	}
	if AfterDeclare != nil {
		AfterDeclare()
	}
	if err := app.Run(append([]string{"app"}, argv...)); err != nil {
		out.HasErr, out.Err = true, err.Error()
	}
	rerun = func(out2 *Outcome, argv2 []string) (got2 [][]interface{}, set2 []bool) {
		app.Action = func() {
			out2.Accept = true
			for _, h := range hs {
				got2 = append(got2, h.get())
				set2 = append(set2, *h.set)
			}
		}
		if err := app.Run(append([]string{"app"}, argv2...)); err != nil {
			out2.HasErr, out2.Err = true, err.Error()
		}
		return
	}
	return
}

// CheckValuesPolicy (C07): a command-line token the built-in types cannot convert is a rejection that follows the policy.
func CheckValuesPolicy(c *ValueCase, st *Stats) *Violation {
	st.Eval()
	spec, argv := valueSpecArgv(c)
	anyCliErr := false
	nonLastBad := false
	for i := range c.Cs {
		e := expectContainer(&c.Cs[i])
		anyCliErr = anyCliErr || e.cliErr
		if e.cliErr && len(c.Cs[i].Cli) > 1 {
			if _, ok := parseTyped(c.Cs[i].Typ, c.Cs[i].Cli[len(c.Cs[i].Cli)-1].Tok); ok || c.Cs[i].Cli[len(c.Cs[i].Cli)-1].Form == 5 {
				nonLastBad = true
			}
		}
	}
	var out Outcome
	Begin("C07", "valuespolicy", c)
	WithSwap(&out, func() { RunValuesInner(&out, c) })
	End()
	ctx := fmt.Sprintf("policy %v spec %q argv %q containers %s", policies[c.Policy], spec, argv, describeContainers(c))
	if !anyCliErr {
		if !out.Accept || out.HasErr || out.Exit != nil || out.Panic != "" {
			return Violf("every token converts, yet the invocation did not simply succeed (Action=%v err=%q exit=%s panic=%q); %s", out.Accept, out.Err, fmtExit(out.Exit), out.Panic, ctx)
		}
		st.Class("typed:accepted")
		return nil
	}
	if out.Accept {
		return Violf("a command-line value is not convertible to its type, yet the Action ran; %s", ctx)
	}
	if !containsUsage(out.Stderr, "app") {
		return Violf("conversion failure: usage of the rejecting command missing from the error stream %q; %s", out.Stderr, ctx)
	}
	switch c.Policy {
	case PolContinue:
		if !out.HasErr || out.Exit != nil || out.Panic != "" {
			return Violf("ContinueOnError: expected a returned error, got err=%q exit=%s panic=%q; %s", out.Err, fmtExit(out.Exit), out.Panic, ctx)
		}
		if !strings.Contains(out.Stderr, out.Err) {
			return Violf("ContinueOnError: error stream %q lacks the error text %q; %s", out.Stderr, out.Err, ctx)
		}
	case PolExit:
		if out.Exit == nil || *out.Exit != 2 || out.Exits != 1 || out.Panic != "" {
			return Violf("ExitOnError: expected exit(2) once, got exit=%s x%d panic=%q; %s", fmtExit(out.Exit), out.Exits, out.Panic, ctx)
		}
	case PolPanic:
		if perr, ok := out.PanicVal.(error); !ok || out.Exit != nil {
			return Violf("PanicOnError: expected a panic with the error, got panic=%q exit=%s; %s", out.Panic, fmtExit(out.Exit), ctx)
		} else if !strings.Contains(out.Stderr, perr.Error()) {
			return Violf("PanicOnError: error stream %q lacks the error text %q; %s", out.Stderr, perr.Error(), ctx)
		}
	}
	st.Class("typed:conversion-failure-follows-policy")
	if nonLastBad {
		st.Class("typed:unconvertible-value-before-a-valid-one")
	}
	st.NonTrivial(describeContainers(c)+fmt.Sprint(c.Policy, c.OptsSpec, c.ArgDD, c.WriteDD), func() interface{} {
		return map[string]interface{}{"spec": spec, "argv": argv, "policy": c.Policy, "containers": c.Cs}
	})
	return nil
}

func kindName(vc *VContainer) string {
	if vc.IsArg {
		return "argument"
	}
	return "option"
}

func describeContainers(c *ValueCase) string {
	b, _ := json.Marshal(c.Cs)
	return string(b)
}

// ---------------------------------------------------------------------------------------------
// generators
// ---------------------------------------------------------------------------------------------

// TokPool holds numeric and boolean edge literals.
var TokPool = []string{"0", "1", "-1", "+5", "007", "42", "9223372036854775807", "9223372036854775808", "-9223372036854775808", "-9223372036854775809",
	"1e3", "1.5", ".5", "5.", "0x10", "0b1", "0o7", "1_000", "inf", "-Inf", "+Inf", "Infinity", "NaN", "nan", "1e309", "-1e309", "1e-400", "0x1p-2", "1E5",
	"true", "false", "T", "F", "t", "f", "TRUE", "FALSE", "True", "False", "yes", "no", "tRUE", "1.0", "00", "-0", "+0", "-0.0",
	" 1", "1 ", "abc", "é", "٣", "1,2", " ", "\t", "", "0000000000000000000000042", "+00000000000000000000007", "000000000000000000000", "-000000000000000000000000009", "00000000000000000000001.5", "\xff\xfe", "caf\xe9", "\xc3(", "1\x80", "2147483648", "4294967296", "18446744073709551616", "1e", "e1", "--1", "+-1", "0.1e+1", "x"}

var numericShape = rapid.StringMatching(`[-+]?(0x|0X|0b|0o)?[0-9a-fA-F_]{1,20}(\.[0-9]{0,5})?([eEpP][-+]?[0-9]{1,3})?`)

func genToken(t *rapid.T) string {
	switch intn(t, 10, "toksrc") {
	case 0, 1:
		return numericShape.Draw(t, "numeric")
	case 2:
		return rapid.StringN(0, 6, 12).Draw(t, "anystr")
	default:
		return rapid.SampledFrom(TokPool).Draw(t, "pooltok")
	}
}

func genValidToken(t *rapid.T, typ int) string {
	for i := 0; i < 50; i++ {
		s := rapid.SampledFrom(TokPool).Draw(t, "deftok")
		if _, ok := parseTyped(typ, s); ok && !strings.Contains(s, ",") {
			return s
		}
	}
	return map[int]string{TBool: "true", TString: "s", TInt: "7", TFloat: "7.5"}[elemType(typ)]
}

// ValueGenMode biases the generator.
type ValueGenMode struct {
	EnvChance int  // in 8: the container has an env list
	CliMax    int  // max values on the command line
	ValidOnly bool // command-line tokens always parse (C06/C15 focus on sources, C13 on tokens)
	OneOnly   bool // a single container (C13)
	CliZero   int  // in 8: nothing on the command line for the container
}

func usableCliToken(tok string, typ int, isArg bool, form int, writeDD, argDD bool) bool {
	if strings.ContainsRune(tok, 0) {
		return false
	}
	if tok == "" {
		// the empty token can only be delivered as a positional or as the separate-form value of an option
		return isArg || form == 2 || form == 4
	}
	if isArg {
		if tok == "--" || tok == "-h" || tok == "--help" {
			return false
		}
		// without an explicit "--" in front, a dash-prefixed token sits where option occurrences are looked for
		if !writeDD && strings.HasPrefix(tok, "-") && tok != "-" {
			return false
		}
		return true
	}
	switch form {
	case 2, 4: // separate form: the value must not start with '-'
		return !strings.HasPrefix(tok, "-")
	case 3: // attached: must not start with '='
		return !strings.HasPrefix(tok, "=")
	}
	return true
}

// GenValueCase draws a value case.
func GenValueCase(t *rapid.T, mode ValueGenMode) *ValueCase {
	// ArgDD (argument part written "[-- X...]") is no longer generated: with a spec-level -- behind an optional option part,
	// reading an option token as the argument is a derivation the spec allows too (DESIGN.md 3.4c); which one the parser
	// picks is not promised, and the typed conversion of the other reading would fail. Dash-prefixed argument tokens are
	// delivered behind an explicit -- instead.
	c := &ValueCase{OptsSpec: intn(t, 2, "optsspec"), ArgDD: false, WriteDD: chance(t, 1, 2, "writedd")}
	nopts := rapid.IntRange(0, 2).Draw(t, "nopts")
	hasArg := chance(t, 1, 2, "hasarg")
	if mode.OneOnly {
		if chance(t, 1, 2, "onearg") {
			nopts, hasArg = 0, true
		} else {
			nopts, hasArg = 1, false
		}
	}
	if nopts == 0 && !hasArg {
		nopts = 1
	}
	mk := func(isArg bool) VContainer {
		vc := VContainer{Typ: intn(t, 7, "typ"), IsArg: isArg, UsePtr: chance(t, 1, 3, "useptr")}
		vc.Prefill = vc.UsePtr && chance(t, 1, 2, "prefill")
		vc.EnvSep = rapid.SampledFrom([]string{"", "", "", "  "}).Draw(t, "envsep") // documented: a space separated list
		nd := 1
		if multi(vc.Typ) {
			nd = rapid.IntRange(0, 2).Draw(t, "ndef")
		}
		for i := 0; i < nd; i++ {
			vc.Default = append(vc.Default, genValidToken(t, vc.Typ))
		}
		if chance(t, mode.EnvChance, 8, "hasenv") {
			ne := rapid.IntRange(1, 3).Draw(t, "nenv")
			for e := 0; e < ne; e++ {
				var ev EnvVar
				switch intn(t, 5, "envstate") {
				case 0:
				case 1:
					ev.Set = true
				default:
					ev.Set = true
					if multi(vc.Typ) {
						k := rapid.IntRange(1, 3).Draw(t, "nitems")
						var parts []string
						for j := 0; j < k; j++ {
							p := genToken(t)
							if chance(t, 2, 3, "validitem") {
								p = genValidToken(t, vc.Typ)
							}
							p = strings.ReplaceAll(p, ",", "")
							if chance(t, 1, 10, "emptyitem") {
								p = "" // "1,,2": an empty list element is an (invalid, for numbers) element, not a separator artefact
							}
							if chance(t, 1, 3, "pad") {
								p = " " + p + "\t" // "blanks trimmed": space and tab only, nothing is claimed about other white space
							}
							parts = append(parts, p)
						}
						ev.Val = strings.Join(parts, ",")
					} else {
						ev.Val = genToken(t)
						if chance(t, 1, 2, "validenv") {
							ev.Val = genValidToken(t, vc.Typ)
						}
					}
					ev.Val = strings.ReplaceAll(ev.Val, "\x00", "")
				}
				vc.Env = append(vc.Env, ev)
			}
		}
		ncli := rapid.IntRange(0, mode.CliMax).Draw(t, "ncli")
		if multi(vc.Typ) && chance(t, 1, 16, "manyvalues") {
			ncli = rapid.IntRange(7, 12).Draw(t, "nclimany") // well over a dozen value tokens per command line when two such containers meet
		}
		if chance(t, mode.CliZero, 8, "clizero") {
			ncli = 0
		}
		if isArg && !multi(vc.Typ) && ncli > 1 {
			ncli = 1
		}
		for j := 0; j < ncli; j++ {
			cv := CliVal{Tok: genToken(t)}
			if mode.ValidOnly || chance(t, 1, 3, "validcli") {
				cv.Tok = genValidToken(t, vc.Typ)
			}
			if !isArg {
				cv.Form = intn(t, 5, "form")
				if vc.Typ == TBool {
					cv.Form = []int{0, 1, 5, 5}[intn(t, 4, "bform")]
				}
			}
			if !usableCliToken(cv.Tok, vc.Typ, isArg, cv.Form, c.WriteDD, c.ArgDD) {
				cv.Tok = genValidToken(t, vc.Typ)
				if !usableCliToken(cv.Tok, vc.Typ, isArg, cv.Form, c.WriteDD, c.ArgDD) {
					cv.Form = 0
					if isArg || cv.Tok == "" {
						cv.Tok = map[int]string{TBool: "true", TString: "s", TInt: "7", TFloat: "7.5"}[elemType(vc.Typ)]
					}
				}
			}
			vc.Cli = append(vc.Cli, cv)
		}
		return vc
	}
	for i := 0; i < nopts; i++ {
		c.Cs = append(c.Cs, mk(false))
	}
	if hasArg {
		c.Cs = append(c.Cs, mk(true))
	}
	if len(c.Cs) >= 2 && chance(t, 1, 3, "sharedefaults") {
		// make a later multi-valued container a twin (same type, same non-empty default) of an earlier one
		for i := 0; i < len(c.Cs)-1; i++ {
			if multi(c.Cs[i].Typ) && len(c.Cs[i].Default) > 0 {
				j := i + 1 + intn(t, len(c.Cs)-i-1, "twin")
				c.Cs[j].Typ = c.Cs[i].Typ
				c.Cs[j].Default = append([]string{}, c.Cs[i].Default...)
				c.Cs[j].Env = nil
				keep := c.Cs[j].Cli[:0]
				for _, cv := range c.Cs[j].Cli {
					if _, ok := parseTyped(c.Cs[j].Typ, cv.Tok); ok && usableCliToken(cv.Tok, c.Cs[j].Typ, c.Cs[j].IsArg, cv.Form, c.WriteDD, c.ArgDD) && cv.Form != 5 {
						keep = append(keep, cv)
					}
				}
				c.Cs[j].Cli = keep
				c.ShareDefaults = true
				break
			}
		}
	}
	if mode.ValidOnly && chance(t, 1, 4, "second") {
		c.Second = true
		for i := range c.Cs {
			vc := &c.Cs[i]
			n := rapid.IntRange(0, 2).Draw(t, "ncli2")
			if vc.IsArg && !multi(vc.Typ) && n > 1 {
				n = 1
			}
			for j := 0; j < n; j++ {
				cv := CliVal{Tok: genValidToken(t, vc.Typ)}
				if !vc.IsArg {
					cv.Form = intn(t, 5, "form2")
					if vc.Typ == TBool {
						cv.Form = []int{0, 1, 5, 5}[intn(t, 4, "bform2")]
					}
				}
				if !usableCliToken(cv.Tok, vc.Typ, vc.IsArg, cv.Form, c.WriteDD, c.ArgDD) {
					cv.Form = 0
					if vc.IsArg || cv.Tok == "" {
						cv.Tok = map[int]string{TBool: "true", TString: "s", TInt: "7", TFloat: "7.5"}[elemType(vc.Typ)]
					}
				}
				vc.Cli2 = append(vc.Cli2, cv)
			}
		}
	}
	return c
}

func init() {
	RegisterReplay("C07", "valuespolicy", func(raw json.RawMessage) *Violation {
		var c ValueCase
		if err := json.Unmarshal(raw, &c); err != nil {
			return Violf("bad replay file: %v", err)
		}
		return CheckValuesPolicy(&c, StatsFor("C07.replay"))
	})
	for _, p := range []string{"C06", "C13", "C15"} {
		p := p
		RegisterReplay(p, "values", func(raw json.RawMessage) *Violation {
			var c ValueCase
			if err := json.Unmarshal(raw, &c); err != nil {
				return Violf("bad replay file: %v", err)
			}
			v, _ := CheckValues(p, &c, StatsFor(p+".replay"))
			return v
		})
	}
}
