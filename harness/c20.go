package vh

import (
	"encoding/json"
	"fmt"
	"io"
	"os"
	"runtime"
	"sync"

	cli "github.com/jawher/mow.cli"
)

// BatchItem is one complete application plus its input: exactly one of the three kinds is set.
type BatchItem struct {
	// full is the item's complete argument vector, built once: every rebuild of the application, sequential or
	// concurrent, is given this very slice (the library must treat the caller's vector as read-only)
	full  []string
	Parse *ParseCase `json:"parse,omitempty"`
	Tree  *TreeCase  `json:"tree,omitempty"`
	Value *ValueCase `json:"value,omitempty"`
}

// BatchCase is the case type of C20.
type BatchCase struct {
	Items  []BatchItem `json:"items"`
	Order2 []int       `json:"order2"` // a second sequential order (permutation of the item indices)
	Procs  int         `json:"procs"`  // GOMAXPROCS for the concurrent rounds
	Rounds int         `json:"rounds"`
}

type lockedDiscard struct{ mu sync.Mutex }

func (d *lockedDiscard) Write(p []byte) (int, error) {
	d.mu.Lock()
	defer d.mu.Unlock()
	return io.Discard.Write(p)
}

func envPrefixOf(i int) string { return fmt.Sprintf("B%d_", i) }

// batchEnv lists every environment variable the batch needs (set once, before any goroutine starts).
func batchEnv(c *BatchCase) map[string]string {
	env := map[string]string{}
	for i, it := range c.Items {
		switch {
		case it.Parse != nil:
			for k, o := range it.Parse.D.Opts {
				if o.Env {
					env[envPrefixOf(i)+EnvName(k)] = EnvValue(o)
				}
			}
		case it.Value != nil:
			for ci, vc := range it.Value.Cs {
				for ei, ev := range vc.Env {
					if ev.Set {
						env[envPrefixOf(i)+vEnvName(ci, ei)] = ev.Val
					}
				}
			}
		}
	}
	return env
}

// record is the outcome record of one item: acceptance, bound values, hook log, exit/panic status.
// It deliberately excludes error wording and stream bytes.
func runItem(i int, it *BatchItem) (rec string) {
	var out Outcome
	var extra interface{}
	defer func() {
		if p := recover(); p != nil {
			if es, ok := p.(ExitSentinel); ok {
				rec = fmt.Sprintf("EXIT(%d)", es.Code)
				return
			}
			rec = fmt.Sprintf("PANIC(%T)", p)
		}
	}()
	switch {
	case it.Parse != nil:
		runRealFull(&out, it.Parse.D, it.Parse.SpecStr, it.full, envPrefixOf(i), false)
	case it.Tree != nil:
		var to TreeOutcome
		to.Binds = map[string]map[string][]string{}
		to.FlagBinds = map[string]map[string][]string{}
		RunTreeInner(&to, it.Tree)
		out = to.Outcome
		extra = to.Binds
	case it.Value != nil:
		vc := *it.Value
		vc.EnvPrefix = envPrefixOf(i)
		got, gotSet := RunValuesInner(&out, &vc)
		var rendered [][]string
		for _, g := range got {
			var r []string
			for _, v := range g {
				if f, ok := v.(float64); ok {
					r = append(r, fmt.Sprintf("%x", f))
				} else {
					r = append(r, fmt.Sprintf("%#v", v))
				}
			}
			rendered = append(rendered, r)
		}
		extra = map[string]interface{}{"vals": rendered, "set": gotSet}
	}
	b, _ := json.Marshal(map[string]interface{}{"accept": out.Accept, "has_err": out.HasErr, "bind": out.Bind, "raw": out.Raw, "log": out.Log, "extra": extra})
	return string(b)
}

// CheckC20 runs the batch sequentially (twice, in two orders) and concurrently, and compares the records.
func CheckC20(c *BatchCase, st *Stats) *Violation {
	st.Eval()
	n := len(c.Items)
	env := batchEnv(c)
	for k, v := range env {
		os.Setenv(k, v)
	}
	EnvPreset = true
	sink := &lockedDiscard{}
	restore := cli.VerifSwap(sink, sink, func(code int) { panic(ExitSentinel{code}) })
	Begin("C20", "batch", c)
	defer func() {
		End()
		restore()
		EnvPreset = false
		for k := range env {
			os.Unsetenv(k)
		}
	}()
	// typed-value apps keep their multi-valued defaults in slices that live as long as the batch item (like a program
	// with package-level default slices): every rebuild, sequential or concurrent, is declared with the same slice objects.
	// The first sequential pass creates them; later passes only read the table.
	for i := range c.Items {
		if p := c.Items[i].Parse; p != nil {
			c.Items[i].full = append([]string{"app"}, p.Argv...)
		}
		if v := c.Items[i].Value; v != nil {
			v.ShareDefaults = true
			v.persist = sharedSlices{}
		}
	}
	first := make([]string, n)
	for i := range c.Items {
		first[i] = runItem(i, &c.Items[i])
	}
	// (1) determinism: rebuild and rerun
	for i := range c.Items {
		if r := runItem(i, &c.Items[i]); r != first[i] {
			return Violf("application %d rebuilt and rerun sequentially gives another outcome: first %s, then %s", i, first[i], r)
		}
	}
	// (1b) only the environment at DECLARATION time counts: the variables of the application are unset or overwritten
	// between its declarations and its Run (sequential phase only: the environment is process-wide)
	for i := range c.Items {
		mine := map[string]string{}
		for k, v := range env {
			if len(k) > len(envPrefixOf(i)) && k[:len(envPrefixOf(i))] == envPrefixOf(i) {
				mine[k] = v
			}
		}
		if len(mine) == 0 {
			continue
		}
		flip := i%2 == 0
		AfterDeclare = func() {
			for k := range mine {
				if flip {
					os.Unsetenv(k)
				} else {
					os.Setenv(k, "changed-after-declaration")
				}
			}
		}
		r := runItem(i, &c.Items[i])
		AfterDeclare = nil
		for k, v := range mine {
			os.Setenv(k, v)
		}
		if r != first[i] {
			return Violf("application %d gives another outcome when its environment variables are changed AFTER its declarations (before Run): declared-time outcome %s, now %s", i, first[i], r)
		}
		st.Class("env-changed-between-declaration-and-run")
	}
	// (2) order independence
	for _, i := range c.Order2 {
		if r := runItem(i, &c.Items[i]); r != first[i] {
			return Violf("application %d gives another outcome when the batch is run in the order %v: first %s, then %s", i, c.Order2, first[i], r)
		}
	}
	// (3) concurrency: one goroutine per application, each builds and runs its own app
	old := runtime.GOMAXPROCS(c.Procs)
	defer runtime.GOMAXPROCS(old)
	for round := 0; round < c.Rounds; round++ {
		got := make([]string, n)
		var wg sync.WaitGroup
		start := make(chan struct{})
		for i := range c.Items {
			wg.Add(1)
			go func(i int) {
				defer wg.Done()
				<-start
				got[i] = runItem(i, &c.Items[i])
			}(i)
		}
		close(start)
		wg.Wait()
		for i := range got {
			if got[i] != first[i] {
				return Violf("application %d run concurrently with %d others (round %d, GOMAXPROCS=%d) gives another outcome: sequential %s, concurrent %s", i, n-1, round, c.Procs, first[i], got[i])
			}
		}
	}
	return nil
}

func init() {
	RegisterReplay("C20", "batch", func(raw json.RawMessage) *Violation {
		var c BatchCase
		if err := json.Unmarshal(raw, &c); err != nil {
			return Violf("bad replay file: %v", err)
		}
		if c.Rounds < 20 {
			c.Rounds = 20
		}
		return CheckC20(&c, StatsFor("C20.replay"))
	})
}
