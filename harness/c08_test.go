package vh

import (
	"bufio"
	"os"
	"strings"
	"testing"

	"pgregory.net/rapid"
)

var c08Alphabet = enumAlphabet

type c08Naming struct {
	name string
	opts []string
	args []string
}

var c08Namings = []c08Naming{
	{"a,--aa declared; b undeclared; X declared; Y undeclared", []string{"-a --aa"}, []string{"X"}},
	{"a,b,--ab declared; X,Y declared", []string{"-a", "-b --ab"}, []string{"X", "Y"}},
	{"upper-case option letter -X declared next to argument X; --a_1 declared", []string{"-X --a_1"}, []string{"X"}},
}

// TestC08Exhaustive enumerates every string up to length VERIF_C08_L over the character-class alphabet.
// Shards split the space by the first two symbols.
func TestC08Exhaustive(t *testing.T) {
	st := StatsFor("C08")
	L := EnvInt("VERIF_C08_L", 5)
	nshards, shard := EnvInt("VERIF_NSHARDS", 1), EnvInt("VERIF_SHARD_INDEX", 0)
	namings := c08Namings[:1]
	if os.Getenv("VERIF_C08_NAMINGS") == "all" {
		namings = c08Namings
	}
	for ni, nm := range namings {
		l := L
		if ni > 0 && l > EnvInt("VERIF_C08_L2", L) {
			l = EnvInt("VERIF_C08_L2", L)
		}
		params, declared := specParams(nm.opts, nm.args)
		var total, compiled, nontrivial, viaRun int64
		buf := make([]byte, 0, l)
		check := func(s string) {
			total++
			if total&1023 == 0 {
				// cheap liveness signal: if the library never returns from one of the next strings the watchdog journals this one
				// (the stuck string is at most 1023 strings further in enumeration order)
				cur := s
				SetCurrent("C08", "spec", func() interface{} { c := NewSpecCase(cur, nm.opts, nm.args); c.ViaRun = true; return c })
			}
			v, res := CheckSpecString(s, params, declared)
			if v == nil && (len(s) <= 4 || Hash64(s)%61 == 0) {
				viaRun++
				c := NewSpecCase(s, nm.opts, nm.args)
				v = CheckSpecViaRun(c)
			}
			if v != nil {
				c := NewSpecCase(s, nm.opts, nm.args)
				c.ViaRun = true
				SaveFailure("C08", "spec", c, v.Msg)
				t.Fatalf("C08/spec: %s", v.Msg)
			}
			if res.Accepted {
				compiled++
			}
			if (res.Accepted && res.NTokens >= 3) || (!res.Accepted && res.ErrPos > 0) {
				nontrivial++
				if nontrivial%200003 == 1 {
					st.AddSample(map[string]interface{}{"spec": s, "naming": nm.name, "compiled": res.Accepted, "error_pos": res.ErrPos})
				}
			}
		}
		var rec func()
		rec = func() {
			check(string(buf))
			if len(buf) == l {
				return
			}
			for _, c := range c08Alphabet {
				buf = append(buf, c)
				rec()
				buf = buf[:len(buf)-1]
			}
		}
		// strings of length < 2 belong to shard 0; the rest is split by the first two symbols
		if shard == 0 {
			check("")
			for _, c := range c08Alphabet {
				check(string([]byte{c}))
			}
		}
		idx := 0
		for _, c1 := range c08Alphabet {
			for _, c2 := range c08Alphabet {
				if idx%nshards == shard && l >= 2 {
					buf = append(buf[:0], c1, c2)
					rec()
				}
				idx++
			}
		}
		SetCurrent("", "", nil)
		st.EvalN(total)
		st.AddDistinct(nontrivial)
		st.ClassN("exhaustive:strings", total)
		st.ClassN("exhaustive:compiled", compiled)
		st.ClassN("exhaustive:nontrivial", nontrivial)
		st.ClassN("exhaustive:also-checked-through-Run", viaRun)
	}
}

func loadSpecCorpus(t *testing.T) []string {
	f, err := os.Open("testdata/spec_corpus.txt")
	if err != nil {
		t.Fatalf("corpus: %v", err)
	}
	defer f.Close()
	var out []string
	sc := bufio.NewScanner(f)
	for sc.Scan() {
		if sc.Text() != "" {
			out = append(out, sc.Text())
		}
	}
	return out
}

// namesIn declares every option and argument name the recogniser's tokenizer sees in s.
func namesIn(s string) (opts, args []string) {
	toks, _ := SpecTokenize(s)
	seenO, seenA := map[string]bool{}, map[string]bool{}
	for _, tk := range toks {
		switch tk.Typ {
		case "Short", "Long":
			if !seenO[tk.Text] {
				seenO[tk.Text] = true
				opts = append(opts, tk.Text)
			}
		case "Seq":
			for _, c := range tk.Text[1:] {
				n := "-" + string(c)
				if !seenO[n] {
					seenO[n] = true
					opts = append(opts, n)
				}
			}
		case "Arg":
			if !seenA[tk.Text] {
				seenA[tk.Text] = true
				args = append(args, tk.Text)
			}
		}
	}
	return
}

var c08EditBytes = []byte(" \t[]()|.-=<>abXY1_AZz09\xc3\x00\n,")

func mutateSpec(rt *rapid.T, s string) string {
	b := []byte(s)
	n := rapid.IntRange(1, 2).Draw(rt, "nedits")
	for i := 0; i < n; i++ {
		switch intn(rt, 5, "edit") {
		case 0: // insert
			p := intn(rt, len(b)+1, "at")
			c := c08EditBytes[intn(rt, len(c08EditBytes), "byte")]
			b = append(b[:p:p], append([]byte{c}, b[p:]...)...)
		case 1: // delete
			if len(b) > 0 {
				p := intn(rt, len(b), "at")
				b = append(b[:p:p], b[p+1:]...)
			}
		case 2: // replace
			if len(b) > 0 {
				p := intn(rt, len(b), "at")
				b = append([]byte{}, b...)
				b[p] = c08EditBytes[intn(rt, len(c08EditBytes), "byte")]
			}
		case 3: // duplicate a byte
			if len(b) > 0 {
				p := intn(rt, len(b), "at")
				b = append(b[:p:p], append([]byte{b[p]}, b[p:]...)...)
			}
		case 4: // insert a token-ish fragment
			frag := rapid.SampledFrom([]string{"...", "--", " -- ", "OPTIONS", "=<x>", "[", "]", "(", ")", "|", "-ab", "--aa", " X", "-"}).Draw(rt, "frag")
			p := intn(rt, len(b)+1, "at")
			b = append(b[:p:p], append([]byte(frag), b[p:]...)...)
		}
	}
	return string(b)
}

// TestC08Random: grammar-derived spec strings (valid by construction), name swaps, single/double edits, corpus mutations.
func TestC08Random(t *testing.T) {
	st := StatsFor("C08")
	corpus := loadSpecCorpus(t)
	cfg := GenCfg{Depth: 4, DD: true}
	rapid.Check(t, func(rt *rapid.T) {
		var c *SpecCase
		switch k := intn(rt, 10, "c08source"); {
		case k < 4: // grammar derived, possibly with a name made undeclared, possibly edited
			p := GenProgram(rt, cfg)
			var opts, args []string
			for _, o := range p.D.Opts {
				opts = append(opts, strings.Join(o.Names, " "))
			}
			for _, a := range p.D.Args {
				args = append(args, a.Name)
			}
			s := p.SpecStr
			src := "grammar"
			if chance(rt, 1, 4, "undeclare") {
				if chance(rt, 1, 2, "which") && len(opts) > 1 {
					i := intn(rt, len(opts), "dropopt")
					opts = append(opts[:i:i], opts[i+1:]...)
				} else if len(args) > 1 {
					i := intn(rt, len(args), "droparg")
					args = append(args[:i:i], args[i+1:]...)
				}
				src = "grammar-undeclared"
			}
			if chance(rt, 1, 3, "edit") {
				s = mutateSpec(rt, s)
				src = "grammar-edited"
			}
			c = NewSpecCase(s, opts, args)
			st.Class("source:" + src)
		case k < 8: // corpus string, names declared from the string itself, then edited
			base := rapid.SampledFrom(corpus).Draw(rt, "corpus")
			opts, args := namesIn(base)
			s := base
			if chance(rt, 3, 4, "edit") {
				s = mutateSpec(rt, s)
			}
			c = NewSpecCase(s, opts, args)
			st.Class("source:corpus")
		default: // bytes biased to the spec alphabet
			n := rapid.IntRange(0, 24).Draw(rt, "len")
			b := make([]byte, n)
			for i := range b {
				b[i] = c08EditBytes[intn(rt, len(c08EditBytes), "byte")]
			}
			c = NewSpecCase(string(b), []string{"-a --aa", "-b"}, []string{"X", "Y"})
			st.Class("source:bytes")
		}
		c.ViaRun = true
		Report(rt, "C08", "spec", c, CheckC08(c, st))
	})
}
