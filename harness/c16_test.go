package vh

import (
	"testing"

	"pgregory.net/rapid"
)

func TestC16(t *testing.T) {
	st := StatsFor("C16")
	rapid.Check(t, func(rt *rapid.T) {
		d := &Decls{}
		nopts := rapid.IntRange(0, 4).Draw(rt, "nopts")
		pools := rapid.Permutation([]int{0, 1, 2, 3, 4, 5, 6}).Draw(rt, "optpools")
		envLeft := 1
		for i := 0; i < nopts; i++ {
			pool := optNamePool[pools[i]]
			k := rapid.IntRange(1, 3).Draw(rt, "nnames")
			perm := rapid.Permutation(pool).Draw(rt, "names")
			o := OptDecl{Names: append([]string{}, perm[:k]...), Bool: pools[i] < 4}
			if envLeft > 0 && chance(rt, 1, 6, "env") {
				o.Env = true
				envLeft--
			}
			d.Opts = append(d.Opts, o)
		}
		nargs := rapid.IntRange(0, 3).Draw(rt, "nargs")
		argNames := rapid.Permutation([]string{"X", "Y", "ZED_1", "SRC", "DST"}).Draw(rt, "argnames")
		for i := 0; i < nargs; i++ {
			d.Args = append(d.Args, ArgDecl{Name: argNames[i]})
		}
		order := rapid.Permutation(allIdx(nopts+nargs)).Draw(rt, "order")
		c := &ImplicitCase{D: d, Order: order}
		for i := 0; i < nargs; i++ {
			c.ArgEnv = append(c.ArgEnv, chance(rt, 1, 5, "argenv"))
		}
		_, ast, dd := explicitSpec(c)
		if nopts+nargs > 0 {
			switch k := intn(rt, 6, "argvsrc"); {
			case k == 0:
				for i, n := 0, rapid.IntRange(0, 5).Draw(rt, "nsoup"); i < n; i++ {
					c.Argv = append(c.Argv, rapid.SampledFrom(Soup).Draw(rt, "soup"))
				}
			case k <= 3:
				c.Argv = Spell(rt, dd, SampleItems(rt, dd, ast, GenCfg{Exotic: true}))
			default:
				c.Argv = MutateArgv(rt, Spell(rt, dd, SampleItems(rt, dd, ast, GenCfg{})))
			}
		} else if chance(rt, 1, 2, "junk") {
			c.Argv = []string{rapid.SampledFrom(Soup).Draw(rt, "soup")}
		}
		if c.Argv == nil {
			c.Argv = []string{}
		}
		if chance(rt, 1, 3, "secondrun") {
			if nopts+nargs > 0 && chance(rt, 2, 3, "sentence2") {
				c.Argv2 = Spell(rt, dd, SampleItems(rt, dd, ast, GenCfg{}))
			} else {
				c.Argv2 = []string{}
				for i, n := 0, rapid.IntRange(0, 3).Draw(rt, "nsoup2"); i < n; i++ {
					c.Argv2 = append(c.Argv2, rapid.SampledFrom(Soup).Draw(rt, "soup2"))
				}
			}
			if c.Argv2 == nil {
				c.Argv2 = []string{}
			}
		} else if chance(rt, 1, 2, "sub") {
			c.Sub = true // a second Run is possible on root-only applications only
		}
		Report(rt, "C16", "implicit", c, CheckC16(c, st))
	})
}
