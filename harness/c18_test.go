package vh

import (
	"strings"
	"testing"

	"pgregory.net/rapid"
)

var c18OptNames = []string{"a", "b", "c", "A", "aa", "ab", "all", "force", "f", "x1", "b2", "B", "logFile", "dryRun", "logFile", "aB"}

// names whose status the statement leaves open are not generated: the reserved word OPTIONS, names with non-ASCII
// upper-case or caseless letters, a leading underscore
var c18ArgNames = []string{"X", "Y", "SRC", "DST_1", "A2", "X", "x", "Src", "1X", "A-B", "A.B", "", "X=", "[X]", "X...", "XY_", "OPTIONS_1", "O", "ARG\u0131", "N\u0441", "Z\xff"}

func TestC18(t *testing.T) {
	st := StatsFor("C18")
	rapid.Check(t, func(rt *rapid.T) {
		c := &DeclCase{}
		n := rapid.IntRange(1, 6).Draw(rt, "ndecls")
		manyNames := false
		for i := 0; i < n; i++ {
			d := Decl18{Style: intn(rt, 7, "style")}
			if chance(rt, 1, 8, "version") {
				d.Style = SVersion
			}
			if d.Style != SVersion && chance(rt, 1, 3, "isarg") {
				d.IsArg = true
				d.Name = rapid.SampledFrom(c18ArgNames).Draw(rt, "argname")
			} else {
				k := rapid.IntRange(1, 4).Draw(rt, "nnames")
				var names []string
				for j := 0; j < k; j++ {
					nm := rapid.SampledFrom(c18OptNames).Draw(rt, "optname")
					dup := false
					for _, x := range names {
						dup = dup || x == nm
					}
					if !dup { // one option listing the same name twice is not "two options that share a name": not generated
						names = append(names, nm)
					}
				}
				if len(names) >= 3 {
					manyNames = true
				}
				d.Name = strings.Join(names, rapid.SampledFrom([]string{" ", "  "}).Draw(rt, "namesep")) // documented: space separated
			}
			c.Decls = append(c.Decls, d)
		}
		c.SpecFirst = chance(rt, 1, 4, "specfirst")
		Report(rt, "C18", "decls", c, CheckC18(c, st))
		w := modelDecls(c)
		if w > 0 || (w < 0 && manyNames) {
			st.NonTrivial(describe18(c), func() interface{} { return map[string]interface{}{"decls": c.Decls, "first_invalid_declaration": w} })
		}
	})
}
