package vh

import (
	"bytes"
	"flag"
	"fmt"
	"io"
	"os"
	"reflect"
	"strings"
	"sync"

	cli "github.com/jawher/mow.cli"
)

// Rec is a recorder value type: every Set string is observed, in order.
type Rec struct {
	Vals []string
	N    int // successful Set calls ever made (Clear does not reset it)
}

// Set records s.
func (r *Rec) Set(s string) error { r.Vals = append(r.Vals, s); r.N++; return nil }
func (r *Rec) String() string {
	if FaithfulString {
		return strings.Join(r.Vals, ",")
	}
	return ""
}

// Clear makes the recorder multi-valued for the library.
func (r *Rec) Clear() { r.Vals = nil }

// MapRec is a recorder whose dynamic type is a map used BY VALUE (value receivers): a legitimate flag.Value that is
// not hashable and not comparable, multi-valued like Rec.
type MapRec map[string][]string

// Set records the token.
func (m MapRec) Set(s string) error {
	m["v"] = append(m["v"], s)
	m["#"] = append(m["#"], "")
	return nil
}

// String renders the content.
func (m MapRec) String() string { return strings.Join(m["v"], ",") }

// Clear makes the recorder multi-valued for the library.
func (m MapRec) Clear() { delete(m, "v") }

// BRec is a recorder that can be used as a flag.
type BRec struct{ Rec }

// IsBoolFlag marks the recorder as a flag.
func (b *BRec) IsBoolFlag() bool { return true }

// String renders a flag the way the standard bool value does: its last value, "false" before any.
func (b *BRec) String() string {
	if !FaithfulString {
		return ""
	}
	if len(b.Vals) == 0 {
		return "false"
	}
	return b.Vals[len(b.Vals)-1]
}

// FaithfulString makes the recorders render their content in String(), as the flag.Value contract asks (a library
// change that consults String() is invisible to recorders that always answer ""). Switched on by the checks that were
// re-validated with it (C12); written only before any case runs.
var FaithfulString bool

// VRec is a recorder that HAS the IsBoolFlag method but answers false: it takes a value like any valued option.
type VRec struct{ Rec }

// IsBoolFlag says: not a flag.
func (v *VRec) IsBoolFlag() bool { return false }

// ExitSentinel is what the exit stub panics with: the production exiter never returns either.
type ExitSentinel struct{ Code int }

// Outcome of one run of the real library.
type Outcome struct {
	Accept   bool                `json:"accept"`          // the Action ran
	Err      string              `json:"err,omitempty"`   // Run's returned error
	HasErr   bool                `json:"has_err"`         //
	Bind     map[string][]string `json:"bind,omitempty"`  // content of the containers the command line wrote to (Touched)
	FlagBind map[string][]string `json:"-"`               // content of the containers whose SetByUser flag is true
	Raw      map[string][]string `json:"-"`               // every recorder's content as read inside the Action
	Panic    string              `json:"panic,omitempty"` // formatted panic value ("" = none)
	PanicVal interface{}         `json:"-"`
	Exit     *int                `json:"exit,omitempty"`
	Exits    int                 `json:"exits,omitempty"`
	Stderr   string              `json:"-"` // what was written to the error stream
	Stdout   string              `json:"-"` // what was written to the output stream
	All      string              `json:"-"` // both, in the order written
	Log      []string            `json:"log,omitempty"`
}

var swapMu sync.Mutex

// WithSwap runs f with the library's streams captured and a non-returning exit stub.
func WithSwap(out *Outcome, f func()) { WithSwapExit(out, nil, f) }

// WithSwapExit is WithSwap with a callback invoked when the exit stub is called.
func WithSwapExit(out *Outcome, onExit func(int), f func()) {
	swapMu.Lock()
	defer swapMu.Unlock()
	// two streams, observed separately (C07 speaks about the error stream) and in their common order (All)
	var bufOut, bufErr, bufAll bytes.Buffer
	restore := cli.VerifSwap(io.MultiWriter(&bufOut, &bufAll), io.MultiWriter(&bufErr, &bufAll), func(c int) {
		cc := c
		out.Exit = &cc
		out.Exits++
		if onExit != nil {
			onExit(c)
		}
		panic(ExitSentinel{c})
	})
	defer func() {
		restore()
		out.Stderr, out.Stdout, out.All = bufErr.String(), bufOut.String(), bufAll.String()
	}()
	func() {
		defer func() {
			if p := recover(); p != nil {
				if _, ok := p.(ExitSentinel); ok {
					return
				}
				out.PanicVal = p
				out.Panic = fmt.Sprintf("%T: %v", p, p)
			}
		}()
		f()
	}()
}

// EnvPreset tells the adapters that the environment variables of all cases were set beforehand (C20 runs cases
// concurrently; the variable is written only while no case goroutine runs).
var EnvPreset bool

func setenv(k, v string) {
	if !EnvPreset {
		os.Setenv(k, v)
	}
}

func unsetenv(k string) {
	if !EnvPreset {
		os.Unsetenv(k)
	}
}

// EnvName is the environment variable backing option i of a case.
func EnvName(i int) string { return fmt.Sprintf("VERIF_E_%d", i) }

// EnvValue is the (valid) value such a variable holds.
func EnvValue(o OptDecl) string {
	if o.EnvVal != "" {
		return o.EnvVal
	}
	if o.Bool {
		return "true"
	}
	return "envv"
}

// Holder gives access to a declared recorder.
type Holder struct {
	Key string
	Rec *Rec
	Set *bool
	Get func() []string // when set, the content is read through it (built-in containers)
	// Count, when set, tells how many successful Set calls the container saw (recorders other than Rec)
	Count func() int
	base  int      // Set calls seen when the declaration finished (environment values arrive before that)
	decl  []string // content when the declaration finished
	armed bool
}

// Vals reads the container's current content.
func (h Holder) Vals() []string {
	if h.Get != nil {
		return h.Get()
	}
	return h.Rec.Vals
}

func (h Holder) count() (int, bool) {
	switch {
	case h.Count != nil:
		return h.Count(), true
	case h.Rec != nil:
		return h.Rec.N, true
	}
	return 0, false
}

// Arm records the state of the containers at the end of their declaration (and again before a further Run on the same
// application object): Touched is relative to it.
func Arm(hs []Holder) {
	for i := range hs {
		hs[i].base, _ = hs[i].count()
		hs[i].decl = append([]string{}, hs[i].Vals()...)
		hs[i].armed = true
	}
}

// Touched: the library wrote command-line values into the container since Arm. For recorders this is observed directly
// (a Set call), independently of the SetByUser flag (which is C15's business); for the library's own containers it is
// inferred from a change of content.
func (h Holder) Touched() bool {
	if !h.armed {
		return *h.Set
	}
	if n, ok := h.count(); ok {
		return n > h.base
	}
	return !reflect.DeepEqual(append([]string{}, h.Vals()...), h.decl)
}

// BuiltinDefault is the declared default of every built-in []string container of a case: ONE slice object with spare
// capacity shared by all of them, as a program holding its defaults in a package-level variable would do.
func BuiltinDefault() []string {
	d := make([]string, 1, 16)
	d[0] = "dflt"
	return d
}

// DeclareRecorders declares every option and argument of d on c through Var with recorder types.
func DeclareRecorders(c *cli.Cmd, d *Decls, envPrefix string) []Holder {
	return DeclareContainers(c, d, envPrefix, false)
}

// DeclareContainers is DeclareRecorders with a choice: builtin = valued options and arguments are the library's own
// []string containers (StringsOpt / StringsArg) instead of recorder value types; flags stay recorders (a BoolOpt only
// keeps the last value, the number of occurrences would be lost).
func DeclareContainers(c *cli.Cmd, d *Decls, envPrefix string, builtin bool) []Holder {
	var hs []Holder
	var shared []string
	if builtin {
		shared = BuiltinDefault()
	}
	for i, o := range d.Opts {
		env := ""
		if o.Env {
			env = envPrefix + EnvName(i)
			setenv(env, EnvValue(o))
		}
		set := new(bool)
		if o.Bool {
			v := &BRec{}
			c.Var(cli.VarOpt{Name: o.DeclName(), Value: v, EnvVar: env, SetByUser: set})
			hs = append(hs, Holder{Key: d.OptKey(i), Rec: &v.Rec, Set: set})
		} else if builtin {
			p := c.Strings(cli.StringsOpt{Name: o.DeclName(), Value: shared, EnvVar: env, SetByUser: set})
			hs = append(hs, Holder{Key: d.OptKey(i), Set: set, Get: func() []string { return *p }})
		} else if i%2 == 1 {
			// every other valued option is a type that has IsBoolFlag() and answers false
			v := &VRec{}
			c.Var(cli.VarOpt{Name: o.DeclName(), Value: v, EnvVar: env, SetByUser: set})
			hs = append(hs, Holder{Key: d.OptKey(i), Rec: &v.Rec, Set: set})
		} else if i%4 == 2 {
			// a map type used by value: not hashable
			m := MapRec{}
			c.Var(cli.VarOpt{Name: o.DeclName(), Value: m, EnvVar: env, SetByUser: set})
			hs = append(hs, Holder{Key: d.OptKey(i), Set: set, Get: func() []string { return m["v"] }, Count: func() int { return len(m["#"]) }})
		} else {
			v := &Rec{}
			c.Var(cli.VarOpt{Name: o.DeclName(), Value: v, EnvVar: env, SetByUser: set})
			hs = append(hs, Holder{Key: d.OptKey(i), Rec: v, Set: set})
		}
		if env != "" {
			unsetenv(env)
		}
	}
	for i, a := range d.Args {
		set := new(bool)
		if builtin {
			p := c.Strings(cli.StringsArg{Name: a.Name, Value: shared, SetByUser: set})
			hs = append(hs, Holder{Key: d.ArgKey(i), Set: set, Get: func() []string { return *p }})
			continue
		}
		if i%3 == 1 {
			m := MapRec{}
			c.Var(cli.VarArg{Name: a.Name, Value: m, SetByUser: set})
			hs = append(hs, Holder{Key: d.ArgKey(i), Set: set, Get: func() []string { return m["v"] }, Count: func() int { return len(m["#"]) }})
			continue
		}
		v := &Rec{}
		c.Var(cli.VarArg{Name: a.Name, Value: v, SetByUser: set})
		hs = append(hs, Holder{Key: d.ArgKey(i), Rec: v, Set: set})
	}
	Arm(hs)
	return hs
}

// Snapshot reads the bindings of the containers the command line supplied.
func Snapshot(hs []Holder) map[string][]string {
	m := map[string][]string{}
	for _, h := range hs {
		if h.Touched() {
			m[h.Key] = append([]string{}, h.Vals()...)
		}
	}
	return m
}

// SnapshotFlags reads the content of the containers whose SetByUser flag is true.
func SnapshotFlags(hs []Holder) map[string][]string {
	m := map[string][]string{}
	for _, h := range hs {
		if *h.Set {
			m[h.Key] = append([]string{}, h.Vals()...)
		}
	}
	return m
}

// RunReal builds a one-command app from (d, spec) and runs it on argv under ContinueOnError.
func RunReal(d *Decls, spec string, argv []string) Outcome {
	var out Outcome
	WithSwap(&out, func() { RunRealInner(&out, d, spec, argv, "") })
	return out
}

// RunRealBuiltin is RunReal with the library's own []string containers for valued options and arguments.
func RunRealBuiltin(d *Decls, spec string, argv []string) Outcome {
	var out Outcome
	WithSwap(&out, func() { runRealInner(&out, d, spec, argv, "", true) })
	return out
}

// RunRealInner is RunReal without touching the package level streams (the caller installed them).
func RunRealInner(out *Outcome, d *Decls, spec string, argv []string, envPrefix string) {
	runRealInner(out, d, spec, argv, envPrefix, false)
}

func runRealInner(out *Outcome, d *Decls, spec string, argv []string, envPrefix string, builtin bool) {
	runRealFull(out, d, spec, append([]string{"app"}, argv...), envPrefix, builtin)
}

// AfterDeclare, when set, runs between the declarations and Run (C20 changes the environment there: the outcome must
// depend on the environment at declaration time only). Written only while no case goroutine runs.
var AfterDeclare func()

// runRealFull takes the complete vector (program name first) and hands that very slice to Run.
func runRealFull(out *Outcome, d *Decls, spec string, full []string, envPrefix string, builtin bool) {
	app := cli.App("app", "")
	app.ErrorHandling = flag.ContinueOnError
	app.Spec = spec
	hs := DeclareContainers(app.Cmd, d, envPrefix, builtin)
	app.Action = func() {
		out.Accept = true
		out.Bind = Snapshot(hs)
		out.FlagBind = SnapshotFlags(hs)
		out.Raw = map[string][]string{}
		for _, h := range hs {
			out.Raw[h.Key] = append([]string{}, h.Vals()...)
		}
	}
	if AfterDeclare != nil {
		AfterDeclare()
	}
	err := app.Run(full)
	if err != nil {
		out.HasErr = true
		out.Err = err.Error()
	}
}
