package vh

import (
	"testing"

	"pgregory.net/rapid"
)

var parseCfg = GenCfg{Depth: 4, Env: true, DD: true, Exotic: true}

func TestC01(t *testing.T) {
	st := StatsFor("C01")
	rapid.Check(t, func(rt *rapid.T) {
		c := GenParseCase(rt, parseCfg)
		Report(rt, "C01", "parse", c, CheckC01(c, st))
	})
}

func TestC02(t *testing.T) {
	st := StatsFor("C02")
	rapid.Check(t, func(rt *rapid.T) {
		c := GenParseCase(rt, parseCfg)
		Report(rt, "C02", "parse", c, CheckC02(c, st))
	})
}
