package vh

import (
	"testing"

	"pgregory.net/rapid"
)

var parseCfg = GenCfg{Depth: 4, Env: true, DD: true, Exotic: true}

func TestC01(t *testing.T) {
	st := StatsFor("C01")
	rapid.Check(t, func(rt *rapid.T) {
		c := GenParseCase(rt, parseCfg)
		// a quarter of the cases with the library's own []string containers (C02 defers acceptance disagreements,
		// crashes included, to this check)
		c.Builtin = chance(rt, 1, 4, "builtin")
		Report(rt, "C01", "parse", c, CheckC01(c, st))
	})
}

func TestC02(t *testing.T) {
	st := StatsFor("C02")
	rapid.Check(t, func(rt *rapid.T) {
		c := GenParseCase(rt, parseCfg)
		c.Builtin = chance(rt, 1, 2, "builtin")
		Report(rt, "C02", "parse", c, CheckC02(c, st))
	})
}

// TestC01Pump attacks the "command lines of any length" clause: one repetition of the spec is iterated 20-150 times
// (50-400 tokens); specs are group-free and the case is only claimed when the reference run stays within its
// ambiguity bound, so the library's designed search cost stays small.
func TestC01Pump(t *testing.T) {
	st := StatsFor("C01")
	cfg := GenCfg{Depth: 3, Env: true, DD: true, NoGroup: true}
	rapid.Check(t, func(rt *rapid.T) {
		p := GenProgram(rt, cfg)
		if !p.AST.HasKind(KRep) {
			p.AST = &Node{Kind: KRep, Kids: []*Node{p.AST}}
			p.SpecStr = p.AST.Render(p.D)
		}
		count := rapid.IntRange(20, 150).Draw(rt, "pumpcount")
		items, ok := SamplePumped(rt, p.D, p.AST, cfg, count)
		if !ok {
			st.Class("pump:skipped-no-repetition")
			return
		}
		argv := Spell(rt, p.D, items)
		if len(argv) > 400 {
			argv = argv[:400]
		}
		if chance(rt, 1, 3, "mutate") {
			argv = MutateArgv(rt, argv)
		}
		c := &ParseCase{Program: p, Argv: argv, Source: "pumped"}
		Report(rt, "C01", "parse", c, CheckC01(c, st))
		if len(argv) >= 50 {
			st.Class("pump:argv>=50")
		}
		if len(argv) >= 200 {
			st.Class("pump:argv>=200")
		}
	})
}
