package vh

import (
	"encoding/json"
	"flag"
	"fmt"
	"regexp"
	"strings"

	cli "github.com/jawher/mow.cli"
)

// Declaration styles.
const (
	SVar = iota // Var(VarOpt/VarArg) with a recorder
	SBoolStruct
	SBoolShort
	SStringStruct
	SStringShort
	SIntStruct
	SStringsShort
	SVersion // app.Version(names, version): declares a flag-like option too
)

// Decl18 is one declaration call.
type Decl18 struct {
	IsArg bool   `json:"is_arg"`
	Name  string `json:"name"` // option: blank separated names without dashes; argument: the name
	Style int    `json:"style"`
}

// DeclCase is the case type of C18.
type DeclCase struct {
	Decls []Decl18 `json:"decls"`
	// SpecFirst: the application's Spec is assigned BEFORE the declarations (the usual layout of a program); the spec
	// mentions no argument, so only the declaration-time part of the check applies
	SpecFirst bool `json:"spec_first,omitempty"`
}

var argNameRe = regexp.MustCompile(`^[A-Z][A-Z0-9_]*$`)

// modelDecls returns the index of the first declaration that must panic (-1 = none).
func modelDecls(c *DeclCase) int {
	opts, args := map[string]bool{}, map[string]bool{}
	for i, d := range c.Decls {
		if d.IsArg {
			if !argNameRe.MatchString(d.Name) || d.Name == "OPTIONS" || args[d.Name] {
				return i
			}
			args[d.Name] = true
			continue
		}
		for _, n := range strings.Fields(d.Name) {
			dn := "--" + n
			if len(n) == 1 {
				dn = "-" + n
			}
			if opts[dn] {
				return i
			}
			opts[dn] = true
		}
	}
	return -1
}

type probe18 struct {
	isBool bool
	get    func() string // current value rendered
	zero   string
}

func declare18(app *cli.Cli, d Decl18) probe18 {
	if d.IsArg {
		switch d.Style {
		case SStringStruct, SStringShort, SBoolStruct, SBoolShort:
			if d.Style == SStringStruct || d.Style == SBoolStruct {
				p := app.String(cli.StringArg{Name: d.Name, Value: "dflt"})
				return probe18{false, func() string { return *p }, "dflt"}
			}
			p := app.StringArg(d.Name, "dflt", "")
			return probe18{false, func() string { return *p }, "dflt"}
		case SIntStruct:
			p := app.Int(cli.IntArg{Name: d.Name, Value: -5})
			return probe18{false, func() string { return fmt.Sprint(*p) }, "-5"}
		case SStringsShort:
			p := app.StringsArg(d.Name, nil, "")
			return probe18{false, func() string { return strings.Join(*p, ",") }, ""}
		default:
			v := &Rec{}
			app.Var(cli.VarArg{Name: d.Name, Value: v})
			return probe18{false, func() string { return strings.Join(v.Vals, ",") }, ""}
		}
	}
	switch d.Style {
	case SVersion:
		app.Version(d.Name, "1.2.3")
		return probe18{true, func() string { return "" }, ""}
	case SBoolStruct:
		p := app.Bool(cli.BoolOpt{Name: d.Name, Value: false})
		return probe18{true, func() string { return fmt.Sprint(*p) }, "false"}
	case SBoolShort:
		p := app.BoolOpt(d.Name, false, "")
		return probe18{true, func() string { return fmt.Sprint(*p) }, "false"}
	case SStringStruct:
		p := app.String(cli.StringOpt{Name: d.Name, Value: "dflt"})
		return probe18{false, func() string { return *p }, "dflt"}
	case SStringShort:
		p := app.StringOpt(d.Name, "dflt", "")
		return probe18{false, func() string { return *p }, "dflt"}
	case SIntStruct:
		p := app.Int(cli.IntOpt{Name: d.Name, Value: -5})
		return probe18{false, func() string { return fmt.Sprint(*p) }, "-5"}
	case SStringsShort:
		p := app.StringsOpt(d.Name, nil, "")
		return probe18{false, func() string { return strings.Join(*p, ",") }, ""}
	default:
		v := &Rec{}
		app.Var(cli.VarOpt{Name: d.Name, Value: v})
		return probe18{false, func() string { return strings.Join(v.Vals, ",") }, ""}
	}
}

// build18 declares everything; it reports the index of the declaration that panicked (-1 = none).
func build18(c *DeclCase) (app *cli.Cli, probes []probe18, panicAt int, panicVal interface{}) {
	app = cli.App("app", "")
	app.ErrorHandling = flag.ContinueOnError
	if c.SpecFirst {
		app.Spec = "[OPTIONS]"
	}
	panicAt = -1
	for i, d := range c.Decls {
		func() {
			defer func() {
				if p := recover(); p != nil {
					panicAt, panicVal = i, p
				}
			}()
			probes = append(probes, declare18(app, d))
		}()
		if panicAt >= 0 {
			return
		}
	}
	return
}

// CheckC18 compares declaration-time panics with the model and probes every name of surviving apps.
func CheckC18(c *DeclCase, st *Stats) *Violation {
	st.Eval()
	want := modelDecls(c)
	Begin("C18", "decls", c)
	defer End()
	_, _, got, pv := build18(c)
	desc := describe18(c)
	if got != want {
		switch {
		case want < 0:
			return Violf("declaration %d panicked (%v) although no name conflicts and every argument name is an upper-case identifier; declarations: %s", got, pv, desc)
		case got < 0:
			return Violf("declaration %d must panic (duplicate name or invalid argument name) but every declaration was silently accepted; declarations: %s", want, desc)
		default:
			return Violf("the panic came at declaration %d (%v), the first conflicting declaration is %d; declarations: %s", got, pv, want, desc)
		}
	}
	if want >= 0 {
		st.Class("outcome:panic-at-declaration")
		if want > 0 {
			st.Class("panic:not-first-declaration")
		}
		return nil
	}
	st.Class("outcome:all-accepted")
	if c.SpecFirst {
		st.Class("layout:spec-assigned-before-the-declarations")
		return nil
	}
	// every listed name addresses its own variable: probe one name per run
	nargs := 0
	for _, d := range c.Decls {
		if d.IsArg {
			nargs++
		}
	}
	for di, d := range c.Decls {
		if d.IsArg || d.Style == SVersion {
			continue // a version flag given first prints the version instead of setting a variable (C14)
		}
		for _, n := range strings.Fields(d.Name) {
			dn := "--" + n
			if len(n) == 1 {
				dn = "-" + n
			}
			var out Outcome
			var after []string
			var isBool bool
			WithSwap(&out, func() {
				app, probes, _, _ := build18(c)
				isBool = probes[di].isBool
				argv := []string{"app"}
				if isBool {
					argv = append(argv, dn)
				} else if d.Style == SIntStruct {
					argv = append(argv, dn+"=41")
				} else {
					argv = append(argv, dn+"=probe")
				}
				for k := 0; k < nargs; k++ {
					v := fmt.Sprintf("p%d", k)
					argv = append(argv, v)
				}
				app.Action = func() {
					out.Accept = true
					for _, p := range probes {
						after = append(after, p.get())
					}
				}
				_ = app.Run(argv)
			})
			if out.Panic != "" {
				return Violf("probing name %s: Run panicked: %s; declarations: %s", dn, out.Panic, desc)
			}
			// int arguments cannot take "pK": such apps are probed without asserting acceptance
			intArg := false
			for _, dd := range c.Decls {
				if dd.IsArg && dd.Style == SIntStruct {
					intArg = true
				}
			}
			if !out.Accept {
				if intArg {
					st.Class("probe:skipped-int-argument")
					continue
				}
				return Violf("probing name %s (one-letter names are short options, longer ones long options) was rejected: %s; declarations: %s", dn, out.Stderr, desc)
			}
			argk := 0
			_, probes, _, _ := build18(c)
			for k, dd := range c.Decls {
				exp := probes[k].zero
				if dd.IsArg {
					exp = fmt.Sprintf("p%d", argk)
					argk++
				} else if k == di {
					switch {
					case isBool:
						exp = "true"
					case dd.Style == SIntStruct:
						exp = "41"
					default:
						exp = "probe"
					}
				}
				if after[k] != exp {
					return Violf("probing name %s of declaration %d: variable of declaration %d holds %q, expected %q (each name must address exactly its own variable); declarations: %s", dn, di, k, after[k], exp, desc)
				}
			}
			st.Class("probe:name-addresses-own-variable")
		}
	}
	return nil
}

func describe18(c *DeclCase) string {
	b, _ := json.Marshal(c.Decls)
	return string(b)
}

func init() {
	RegisterReplay("C18", "decls", func(raw json.RawMessage) *Violation {
		var c DeclCase
		if err := json.Unmarshal(raw, &c); err != nil {
			return Violf("bad replay file: %v", err)
		}
		return CheckC18(&c, StatsFor("C18.replay"))
	})
}
