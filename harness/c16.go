package vh

import (
	"encoding/json"
	"flag"
	"fmt"
	"strings"

	cli "github.com/jawher/mow.cli"
)

// ImplicitCase is the case type of C16: declarations in a given call order, and an argv.
type ImplicitCase struct {
	D     *Decls   `json:"decls"`
	Order []int    `json:"order"` // declaration call order: i < len(Opts) = option i, otherwise argument i-len(Opts)
	Argv  []string `json:"argv"`
	// Argv2, when non-nil, is a second command line given to the SAME application object after Argv
	Argv2 []string `json:"argv2,omitempty"`
	// ArgEnv[i]: argument i is declared with an environment variable that holds a value at declaration time
	// (this changes its initial value, never the spec)
	ArgEnv []bool `json:"arg_env,omitempty"`
	// Sub: the command under test is the sub command "sub" of the application instead of its root command
	Sub bool `json:"sub,omitempty"`
}

func runOrdered(c *ImplicitCase, spec string, argv []string) (Outcome, string) {
	o, u, _, _ := runOrderedSeq(c, spec, argv, nil)
	return o, u
}

func usageLine(stderr string) string {
	for _, l := range strings.Split(stderr, "\n") {
		if strings.HasPrefix(strings.TrimSpace(l), "Usage:") {
			return normWS(l)
		}
	}
	return ""
}

// runOrderedSeq runs argv and then (when argv2 != nil) argv2 on the same application object.
func runOrderedSeq(c *ImplicitCase, spec string, argv, argv2 []string) (Outcome, string, Outcome, string) {
	var out, out2 Outcome
	var app *cli.Cli
	var hs []Holder
	WithSwap(&out, func() {
		app = cli.App("app", "")
		app.ErrorHandling = flag.ContinueOnError
		declare := func(cmd *cli.Cmd) {
			for _, idx := range c.Order {
				if idx < len(c.D.Opts) {
					o := c.D.Opts[idx]
					set := new(bool)
					env := ""
					if o.Env {
						env = EnvName(idx)
						setenv(env, EnvValue(o))
					}
					if o.Bool {
						v := &BRec{}
						cmd.Var(cli.VarOpt{Name: o.DeclName(), Value: v, EnvVar: env, SetByUser: set})
						hs = append(hs, Holder{Key: c.D.OptKey(idx), Rec: &v.Rec, Set: set})
					} else {
						v := &Rec{}
						cmd.Var(cli.VarOpt{Name: o.DeclName(), Value: v, EnvVar: env, SetByUser: set})
						hs = append(hs, Holder{Key: c.D.OptKey(idx), Rec: v, Set: set})
					}
					if env != "" {
						unsetenv(env)
					}
				} else {
					ai := idx - len(c.D.Opts)
					a := c.D.Args[ai]
					v := &Rec{}
					set := new(bool)
					env := ""
					if ai < len(c.ArgEnv) && c.ArgEnv[ai] {
						env = fmt.Sprintf("VERIF_A_%d", ai)
						setenv(env, "envarg")
					}
					cmd.Var(cli.VarArg{Name: a.Name, Value: v, EnvVar: env, SetByUser: set})
					if env != "" {
						unsetenv(env)
					}
					hs = append(hs, Holder{Key: c.D.ArgKey(idx - len(c.D.Opts)), Rec: v, Set: set})
				}
			}
			cmd.Spec = spec
			Arm(hs)
			cmd.Action = func() {
				out.Accept = true
				out.Bind = Snapshot(hs)
				out.Raw = map[string][]string{}
				for _, h := range hs {
					out.Raw[h.Key] = append([]string{}, h.Vals()...)
				}
			}
		}
		full := append([]string{"app"}, argv...)
		if c.Sub {
			// "a command": the command under test is a sub command
			app.Command("sub", "", declare)
			full = append([]string{"app", "sub"}, argv...)
		} else {
			declare(app.Cmd)
		}
		if err := app.Run(full); err != nil {
			out.HasErr, out.Err = true, err.Error()
		}
	})
	if argv2 != nil && out.Panic == "" {
		WithSwap(&out2, func() {
			Arm(hs)
			app.Action = func() {
				out2.Accept = true
				out2.Bind = Snapshot(hs)
				out2.Raw = map[string][]string{}
				for _, h := range hs {
					out2.Raw[h.Key] = append([]string{}, h.Vals()...)
				}
			}
			if err := app.Run(append([]string{"app"}, argv2...)); err != nil {
				out2.HasErr, out2.Err = true, err.Error()
			}
		})
	}
	return out, usageLine(out.All), out2, usageLine(out2.All)
}

// explicitSpec assembles "[OPTIONS] ARG1 ARG2 ..." from the statement.
func explicitSpec(c *ImplicitCase) (string, *Node, *Decls) {
	var parts []string
	// the reference AST indexes arguments in declaration order
	d := &Decls{Opts: c.D.Opts}
	seq := &Node{Kind: KSeq}
	if len(c.D.Opts) > 0 {
		parts = append(parts, "[OPTIONS]")
		seq.Kids = append(seq.Kids, &Node{Kind: KOptional, Kids: []*Node{{Kind: KGroup, Group: allIdx(len(c.D.Opts)), AllOpts: true}}})
	}
	for _, idx := range c.Order {
		if idx >= len(c.D.Opts) {
			a := c.D.Args[idx-len(c.D.Opts)]
			parts = append(parts, a.Name)
			d.Args = append(d.Args, a)
			seq.Kids = append(seq.Kids, &Node{Kind: KArg, Arg: len(d.Args) - 1})
		}
	}
	return strings.Join(parts, " "), seq, d
}

// CheckC16 compares the app without a spec with the app carrying the explicit spec.
func CheckC16(c *ImplicitCase, st *Stats) *Violation {
	st.Eval()
	spec, ast, d := explicitSpec(c)
	Begin("C16", "implicit", c)
	defer End() // every later library call of this check stays under the watchdog
	ri, _ := runOrdered(c, "", c.Argv)
	re, _ := runOrdered(c, spec, c.Argv)
	_, ui := runOrdered(c, "", []string{"--help"})
	_, ue := runOrdered(c, spec, []string{"--help"})
	if ri.Panic != "" || re.Panic != "" {
		return Violf("Run panicked: implicit %q explicit %q; decls [%s] order %v argv %q", ri.Panic, re.Panic, FmtDecls(c.D), c.Order, c.Argv)
	}
	if !sameOutcome(&ri, &re) {
		return Violf("a command without spec does not behave like the explicit spec %q: decls [%s] order %v argv %q: implicit -> %s ; explicit -> %s",
			spec, FmtDecls(c.D), c.Order, c.Argv, describe(&ri), describe(&re))
	}
	if ui != ue {
		return Violf("usage line of the command without spec is %q, with the explicit spec %q it is %q", ui, spec, ue)
	}
	want := normWS("Usage: app " + spec)
	if c.Sub {
		want = normWS("Usage: app sub " + spec)
		st.Class("decls:command-under-test-is-a-sub-command")
	}
	if ui != want {
		return Violf("usage line of the command without spec is %q, expected %q", ui, want)
	}
	if !HasHelpToken(c.Argv) {
		// whether the explicit spec itself accepts the command line is C01's claim: only booked here
		if v := modelAgrees("C16", d, ast, c.Argv, &re, st); v != nil {
			st.Class("deferred-to-C01")
		}
	}
	if c.Argv2 != nil {
		// the same two command lines, one after the other, on one application object of each variant
		_, _, si, sui := runOrderedSeq(c, "", c.Argv, c.Argv2)
		_, _, se, sue := runOrderedSeq(c, spec, c.Argv, c.Argv2)
		if !sameOutcome(&si, &se) || sui != sue {
			return Violf("second command line %q on the same application object (after %q): without spec -> %s usage %q ; with the explicit spec %q -> %s usage %q; decls [%s] order %v",
				c.Argv2, c.Argv, describe(&si), sui, spec, describe(&se), sue, FmtDecls(c.D), c.Order)
		}
		_, _, _, hi := runOrderedSeq(c, "", c.Argv, []string{"--help"})
		if hi != want {
			return Violf("usage line shown by a second run (--help after %q) of the command without spec is %q, expected %q", c.Argv, hi, want)
		}
		st.Class("sequence:two-runs-on-one-app")
	}
	if ri.Accept {
		st.Class("verdict:accept")
	} else {
		st.Class("verdict:reject")
	}
	if len(c.D.Opts) == 0 {
		st.Class("decls:no-option")
	}
	if len(c.D.Args) == 0 {
		st.Class("decls:no-argument")
	}
	for _, e := range c.ArgEnv {
		if e {
			st.Class("decls:argument-with-environment-value")
			break
		}
	}
	inter := false
	seenArg := false
	for _, idx := range c.Order {
		if idx >= len(c.D.Opts) {
			seenArg = true
		} else if seenArg {
			inter = true
		}
	}
	if inter {
		st.Class("decls:option-declared-after-argument")
	}
	if len(c.D.Opts) >= 1 && len(c.D.Args) >= 2 && len(c.Argv) > 0 {
		st.NonTrivial(FmtDecls(c.D)+"\x00"+strings.Join(c.Argv, "\x01")+"\x00"+string(rune(len(c.Order))), func() interface{} {
			return map[string]interface{}{"decls": FmtDecls(c.D), "order": c.Order, "argv": c.Argv, "explicit_spec": spec}
		})
	}
	return nil
}

func init() {
	RegisterReplay("C16", "implicit", func(raw json.RawMessage) *Violation {
		var c ImplicitCase
		if err := json.Unmarshal(raw, &c); err != nil {
			return Violf("bad replay file: %v", err)
		}
		return CheckC16(&c, StatsFor("C16.replay"))
	})
}
