package vh

import (
	"reflect"
	"testing"
)

// Self tests of the harness: hand-written expectations taken from the library's documentation (README.md / doc.go),
// checked against the reference semantics alone. They protect the oracle against its own regressions; they say nothing
// about the library.

func selfDecls() *Decls {
	return &Decls{
		Opts: []OptDecl{
			{Names: []string{"-f", "--force"}, Bool: true},
			{Names: []string{"-g"}, Bool: true},
			{Names: []string{"-o", "--out"}, Bool: false},
			{Names: []string{"-e", "--env"}, Bool: false, Env: true},
		},
		Args: []ArgDecl{{Name: "SRC"}, {Name: "DST"}},
	}
}

func opt(i int) *Node        { return &Node{Kind: KOpt, Opt: i} }
func arg(i int) *Node        { return &Node{Kind: KArg, Arg: i} }
func seq(k ...*Node) *Node   { return &Node{Kind: KSeq, Kids: k} }
func alt(k ...*Node) *Node   { return &Node{Kind: KChoice, Kids: k} }
func optional(k *Node) *Node { return &Node{Kind: KOptional, Kids: []*Node{k}} }
func rep(k *Node) *Node      { return &Node{Kind: KRep, Kids: []*Node{k}} }
func group(m ...int) *Node   { return &Node{Kind: KGroup, Group: m} }
func dd() *Node              { return &Node{Kind: KDD} }

func TestSelfModel(t *testing.T) {
	d := selfDecls()
	type row struct {
		name   string
		spec   *Node
		argv   []string
		accept bool
		bind   map[string][]string // nil = not checked
	}
	rows := []row{
		{"cp: SRC... DST", seq(rep(arg(0)), arg(1)), []string{"a", "b", "c"}, true, map[string][]string{"ASRC": {"a", "b"}, "ADST": {"c"}}},
		{"cp needs two", seq(rep(arg(0)), arg(1)), []string{"a"}, false, nil},
		{"ordering: option after positional", seq(opt(0), arg(0)), []string{"x", "-f"}, false, nil},
		{"ordering ok", seq(opt(0), arg(0)), []string{"-f", "x"}, true, map[string][]string{"O-f": {"true"}, "ASRC": {"x"}}},
		{"long form", seq(opt(0), arg(0)), []string{"--force", "x"}, true, nil},
		{"-f=true", seq(opt(0), arg(0)), []string{"-f=true", "x"}, true, map[string][]string{"O-f": {"true"}, "ASRC": {"x"}}},
		{"choice", alt(opt(0), opt(1)), []string{"-g"}, true, nil},
		{"choice excludes both", alt(opt(0), opt(1)), []string{"-f", "-g"}, false, nil},
		{"optional", seq(optional(opt(0)), arg(0)), []string{"x"}, true, nil},
		{"options commute", seq(opt(0), opt(2)), []string{"-o", "v", "-f"}, true, map[string][]string{"O-f": {"true"}, "O-o": {"v"}}},
		{"folded -fg", seq(opt(0), opt(1)), []string{"-gf"}, true, nil},
		{"folded with value -fov", seq(opt(0), opt(2)), []string{"-fov"}, true, map[string][]string{"O-f": {"true"}, "O-o": {"v"}}},
		{"-o=v", opt(2), []string{"-o=v"}, true, map[string][]string{"O-o": {"v"}}},
		{"--out v", opt(2), []string{"--out", "v"}, true, map[string][]string{"O-o": {"v"}}},
		{"--out=v", opt(2), []string{"--out=v"}, true, map[string][]string{"O-o": {"v"}}},
		{"separate value may not start with -", opt(2), []string{"-o", "-v"}, false, nil},
		{"group any order", group(0, 1, 2), []string{"-o", "v", "-g", "-f"}, true, nil},
		{"group needs one", group(0, 1), []string{}, false, nil},
		{"repeatable option", rep(opt(2)), []string{"-o", "a", "-o=b", "-oc"}, true, map[string][]string{"O-o": {"a", "b", "c"}}},
		{"-- ends options", seq(optional(opt(0)), arg(0)), []string{"--", "-f"}, true, map[string][]string{"ASRC": {"-f"}}},
		{"trailing --", arg(0), []string{"x", "--"}, true, map[string][]string{"ASRC": {"x"}}},
		{"second -- is data", rep(arg(0)), []string{"--", "--"}, true, map[string][]string{"ASRC": {"--"}}},
		{"dash token is not positional", arg(0), []string{"-x"}, false, nil},
		{"lone dash is positional", arg(0), []string{"-"}, true, map[string][]string{"ASRC": {"-"}}},
		{"lone dash ends the option run", seq(opt(0), arg(0)), []string{"-", "-f"}, false, nil},
		{"spec-level --", seq(dd(), rep(arg(0))), []string{"-f", "x"}, true, map[string][]string{"ASRC": {"-f", "x"}}},
		{"env satisfies a required option", seq(opt(3), arg(0)), []string{"x"}, true, map[string][]string{"ASRC": {"x"}}},
		{"env backed option still usable", seq(opt(3), arg(0)), []string{"-e", "v", "x"}, true, map[string][]string{"O-e": {"v"}, "ASRC": {"x"}}},
		{"undeclared option", seq(optional(opt(0)), arg(0)), []string{"-z", "x"}, false, nil},
		{"empty value with =", opt(2), []string{"--out="}, false, nil},
		{"nested repetition of optional", rep(optional(rep(optional(arg(0))))), []string{"a", "b"}, true, nil},
		{"backtracking choice under rep", seq(rep(alt(arg(0), seq(arg(0), arg(1)))), arg(1)), []string{"a", "b", "c"}, true, nil},
	}
	for _, r := range rows {
		got := Accepts(d, r.spec, r.argv, Quirks{})
		if got != r.accept {
			t.Errorf("%s: spec %q argv %q: model accept=%v, documented %v", r.name, r.spec.Render(d), r.argv, got, r.accept)
			continue
		}
		if r.bind != nil {
			if !Verifies(d, r.spec, r.argv, r.bind, Quirks{}) {
				t.Errorf("%s: documented bindings %v are not a derivation for the model", r.name, r.bind)
			}
			bad := map[string][]string{}
			for k, v := range r.bind {
				bad[k] = append([]string{"bogus"}, v...)
			}
			if Verifies(d, r.spec, r.argv, bad, Quirks{}) {
				t.Errorf("%s: the model verifies invented bindings %v", r.name, bad)
			}
		}
	}
	// the recorded finding F3: ideal accepts, greedy rejects
	f3 := seq(group(0, 1), opt(0))
	if !Accepts(d, f3, []string{"-f", "-f"}, Quirks{}) || Accepts(d, f3, []string{"-f", "-f"}, Quirks{GreedyGroup: true}) {
		t.Errorf("F3 quirk switch does not behave as documented")
	}
}

func TestSelfFindOcc(t *testing.T) {
	d := selfDecls()
	type row struct {
		toks  []string
		want  int
		found bool
		val   string
		rest  []string
	}
	rows := []row{
		{[]string{"-f"}, 0, true, "true", []string{}},
		{[]string{"-gf", "x"}, 0, true, "true", []string{"-g", "x"}},
		{[]string{"-o", "v", "-f"}, 0, true, "true", []string{"-o", "v"}},
		{[]string{"-fov"}, 2, true, "v", []string{"-f"}},
		{[]string{"-fo", "v"}, 2, true, "v", []string{"-f"}},
		{[]string{"x", "-f"}, 0, false, "", nil},
		{[]string{"--", "-f"}, 0, false, "", nil},
		{[]string{"-", "-f"}, 0, false, "", nil},
		{[]string{"-z", "-f"}, 0, false, "", nil},
		{[]string{"--out=v", "-f"}, 0, true, "true", []string{"--out=v"}},
		{[]string{"--out", "-f"}, 2, false, "", nil},
		{[]string{"-o=", "-f"}, 2, false, "", nil},
	}
	for _, r := range rows {
		oc, ok := FindOcc(d, r.toks, r.want)
		if ok != r.found || (ok && oc.Val != r.val) {
			t.Errorf("FindOcc(%q, %d) = %+v,%v; want found=%v val=%q", r.toks, r.want, oc, ok, r.found, r.val)
			continue
		}
		if ok {
			if rest := RemoveOcc(r.toks, oc); !reflect.DeepEqual(append([]string{}, rest...), r.rest) {
				t.Errorf("RemoveOcc(%q) = %q, want %q", r.toks, rest, r.rest)
			}
		}
	}
}

func TestSelfSpecRecogniser(t *testing.T) {
	declared := func(n string) bool {
		return map[string]bool{"-f": true, "--force": true, "-g": true, "SRC": true, "DST": true}[n]
	}
	good := []string{"", "SRC", "[-f] SRC... DST", "-f | -g", "(-f|-g)... SRC", "-fg", "[OPTIONS] SRC", "-f=<x y> SRC", "-- SRC", "[SRC --]", "--force", "SRC\t[DST]"}
	bad := []string{"[", "]", "SRC [", "()", "[]", "-x", "NOPE", "-- -f", "SRC..", "-f=<", "=<x>", "- SRC", "---", "-f-g", "src", "SRC |", "|", "-- OPTIONS", "-fx"}
	for _, s := range good {
		if _, e := SpecCheck(s, declared); e != nil {
			t.Errorf("recogniser rejects the well-formed spec %q: %+v", s, e)
		}
	}
	for _, s := range bad {
		if _, e := SpecCheck(s, declared); e == nil {
			t.Errorf("recogniser accepts the ill-formed spec %q", s)
		}
	}
}
