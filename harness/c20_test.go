package vh

import (
	"testing"

	"pgregory.net/rapid"
)

func TestC20(t *testing.T) {
	st := StatsFor("C20")
	pcfg := GenCfg{Depth: 3, Env: true, DD: true}
	rapid.Check(t, func(rt *rapid.T) {
		n := rapid.IntRange(8, 48).Draw(rt, "batch")
		c := &BatchCase{Procs: rapid.SampledFrom([]int{2, 16}).Draw(rt, "procs"), Rounds: rapid.IntRange(2, 4).Draw(rt, "rounds")}
		sharedSpec, usesEnv := false, false
		for len(c.Items) < n {
			switch k := intn(rt, 6, "kind"); {
			case k <= 2:
				pc := GenParseCase(rt, pcfg)
				if HasHelpToken(pc.Argv) {
					continue
				}
				c.Items = append(c.Items, BatchItem{Parse: pc})
				for _, o := range pc.D.Opts {
					usesEnv = usesEnv || o.Env
				}
				// the same program with other command lines: same spec string, same matcher shapes
				for j, m := 0, rapid.IntRange(0, 3).Draw(rt, "twins"); j < m && len(c.Items) < n; j++ {
					argv, src := GenArgv(rt, pc.D, pc.AST, pcfg)
					if HasHelpToken(argv) {
						continue
					}
					c.Items = append(c.Items, BatchItem{Parse: &ParseCase{Program: pc.Program, Argv: argv, Source: src}})
					sharedSpec = true
				}
			case k == 3:
				id := 0
				tcfg := GenCfg{Depth: 2, Env: false, DD: true}
				root := GenTree(rt, 2, &id, tcfg)
				tc := &TreeCase{Root: root, HelpLevel: -1}
				cur := root
				for {
					toks := Spell(rt, cur.D, SampleItems(rt, cur.D, cur.AST, tcfg))
					if chance(rt, 1, 3, "mut") {
						toks = MutateArgv(rt, toks)
					}
					if HasHelpToken(toks) {
						toks = nil
					}
					tc.Levels = append(tc.Levels, toks)
					if len(cur.Subs) == 0 || chance(rt, 1, 3, "stop") {
						break
					}
					i := intn(rt, len(cur.Subs), "sub")
					tc.Path = append(tc.Path, i)
					tc.Alias = append(tc.Alias, intn(rt, 3, "alias"))
					cur = cur.Subs[i]
				}
				c.Items = append(c.Items, BatchItem{Tree: tc})
			default:
				vc := GenValueCase(rt, ValueGenMode{EnvChance: 5, CliMax: 2, CliZero: 3})
				c.Items = append(c.Items, BatchItem{Value: vc})
				for _, x := range vc.Cs {
					usesEnv = usesEnv || len(x.Env) > 0
				}
			}
		}
		c.Order2 = rapid.Permutation(allIdx(len(c.Items))).Draw(rt, "order2")
		Report(rt, "C20", "batch", c, CheckC20(c, st))
		st.ClassN("applications-run", int64(len(c.Items))*int64(3+c.Rounds))
		if c.Procs == 2 {
			st.Class("gomaxprocs:2")
		} else {
			st.Class("gomaxprocs:16")
		}
		if len(c.Items) >= 8 && sharedSpec && usesEnv {
			st.NonTrivial(jsonOf(c), func() interface{} {
				return map[string]interface{}{"applications": len(c.Items), "procs": c.Procs, "rounds": c.Rounds, "first_item": c.Items[0]}
			})
		}
	})
}
