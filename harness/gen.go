package vh

import (
	"strings"

	"pgregory.net/rapid"
)

// GenCfg tunes the program / input generators.
type GenCfg struct {
	Depth    int  // maximum AST depth
	Env      bool // allow environment-backed options
	DD       bool // allow a spec-level "--"
	MaxRep   int  // maximum iterations when sampling a repetition (default 3)
	MinFlags int  // at least that many flags
	Exotic   bool // exotic positionals ("", "a=b", non-ASCII)
	NoGroup  bool // no option groups (pumped inputs: the ideal group semantics is subset-valued)
	BareSubs bool // trees: sub commands declare no options and no arguments (such an application can be Run twice)
	// aliasPool, when set, collects every command name of the tree being drawn: a name may be reused by a command that
	// is not a sibling (names only have to be unique among the sub commands of one command)
	aliasPool *[]string
}

func intn(t *rapid.T, n int, label string) int {
	if n <= 1 {
		return 0
	}
	return rapid.IntRange(0, n-1).Draw(t, label)
}

func chance(t *rapid.T, num, den int, label string) bool {
	return rapid.IntRange(0, den-1).Draw(t, label) < num
}

var optNamePool = [][]string{
	{"-a", "--all", "-A", "--a_1"},
	{"-b", "--bee", "-B", "--b-2"},
	{"-c", "--cee", "-C", "--3c"},
	{"-d", "--dee", "-D", "--d_d"},
	{"-o", "--out", "-O", "--o-ut"},
	{"-p", "--path", "-P", "--p2"},
	{"-q", "--quux", "-Q", "--q_"},
}

var argNamePool = []string{"X", "Y", "ZED_1"}

// argNameVariants: now and then an argument is called like the keyword plus something (still a plain argument name)
var argNameVariants = [][]string{{"X", "Y", "ZED_1"}, {"X", "Y", "ZED_1"}, {"X", "Y", "ZED_1"}, {"OPTIONS_1", "Y", "OPTIONS2"}, {"X", "OPTIONSX", "Z9"}}

// GenDecls draws a declaration set: 1-4 flags, 0-3 valued options, 1-3 names each, 1-3 arguments.
func GenDecls(t *rapid.T, cfg GenCfg) *Decls {
	d := &Decls{}
	minF := 1
	if cfg.MinFlags > minF {
		minF = cfg.MinFlags
	}
	nf := rapid.IntRange(minF, 4).Draw(t, "nflags")
	nv := rapid.IntRange(0, 3).Draw(t, "nvalued")
	envLeft := 2
	mk := func(pool []string, isBool bool) {
		k := rapid.IntRange(1, 3).Draw(t, "nnames")
		perm := rapid.Permutation(pool).Draw(t, "names")
		o := OptDecl{Names: append([]string{}, perm[:k]...), Bool: isBool}
		if cfg.Env && envLeft > 0 && chance(t, 1, 4, "env") {
			o.Env = true
			envLeft--
		}
		d.Opts = append(d.Opts, o)
	}
	for i := 0; i < nf; i++ {
		mk(optNamePool[i], true)
	}
	for i := 0; i < nv; i++ {
		mk(optNamePool[4+i], false)
	}
	if chance(t, 1, 10, "nonasciiopt") {
		// an option whose only names are not ASCII; the spec lexer cannot spell them, OPTIONS reaches them. Two letters or
		// more: long options however letters are counted. The one-character name "é" (one letter, two bytes: the long
		// option --é by the library's byte rule, the short option -é for an implementation counting characters) is not
		// generated: the statements do not settle which it is, and spellings, folding and the soup token "-é" all depend
		// on the answer
		pool := [][]string{{"--éa"}, {"--ñandú"}, {"--éa", "--ünï"}}
		names := rapid.SampledFrom(pool).Draw(t, "nonasciinames")
		d.Opts = append(d.Opts, OptDecl{Names: names, Bool: chance(t, 1, 2, "nonasciiflag"), OnlyViaOptions: true})
	}
	if cfg.Env {
		for i := range d.Opts {
			if d.Opts[i].Env && chance(t, 1, 5, "blankenv") {
				d.Opts[i].EnvVal = rapid.SampledFrom([]string{" ", "\t", "  "}).Draw(t, "blankenvval")
			}
		}
	}
	na := rapid.IntRange(1, 3).Draw(t, "nargs")
	argNames := rapid.SampledFrom(argNameVariants).Draw(t, "argnames")
	for i := 0; i < na; i++ {
		d.Args = append(d.Args, ArgDecl{Name: argNames[i]})
	}
	return d
}

type specGen struct {
	t      *rapid.T
	d      *Decls
	cfg    GenCfg
	ddSeen bool
}

var annotations = []string{"", "", "", "", "=<v>", "=<a b>", "=<[x]|(y)...>", "=<-->"}
var seqSeps = []string{"", "", "", "  ", "\t", " \t "}
var choiceSeps = []string{"", "", "|", "| ", " |", "\t|\t"}

func (g *specGen) atom() *Node {
	t := g.t
	for {
		k := intn(t, 20, "atom")
		switch {
		case k < 7 && !g.ddSeen:
			o := intn(t, len(g.d.Opts), "opt")
			if g.d.Opts[o].OnlyViaOptions {
				continue
			}
			return &Node{Kind: KOpt, Opt: o, UseName: intn(t, 3, "use"),
				Annotated: rapid.SampledFrom(annotations).Draw(t, "ann")}
		case k < 10 && !g.ddSeen && !g.cfg.NoGroup:
			if chance(t, 1, 2, "allopts") {
				all := make([]int, len(g.d.Opts))
				for i := range all {
					all[i] = i
				}
				return &Node{Kind: KGroup, Group: all, AllOpts: true}
			}
			var cand []int
			for i, o := range g.d.Opts {
				if o.ShortName() != "" {
					cand = append(cand, i)
				}
			}
			if len(cand) < 2 {
				continue
			}
			n := rapid.IntRange(2, 4).Draw(t, "gsize")
			var grp []int
			for i := 0; i < n; i++ {
				grp = append(grp, cand[intn(t, len(cand), "gmember")])
			}
			distinct := map[int]bool{}
			for _, o := range grp {
				distinct[o] = true
			}
			if len(distinct) < 2 {
				continue
			}
			return &Node{Kind: KGroup, Group: grp}
		case k < 19:
			return &Node{Kind: KArg, Arg: intn(t, len(g.d.Args), "arg")}
		default:
			if g.cfg.DD && chance(t, 1, 2, "dd") {
				g.ddSeen = true
				return &Node{Kind: KDD}
			}
		}
	}
}

func (g *specGen) node(depth int) *Node {
	t := g.t
	if depth <= 0 || chance(t, 3, 10, "leaf") {
		return g.atom()
	}
	switch intn(t, 4, "op") {
	case 0:
		n := &Node{Kind: KSeq, Sep: rapid.SampledFrom(seqSeps).Draw(t, "sep")}
		for i, c := 0, rapid.IntRange(2, 3).Draw(t, "nkids"); i < c; i++ {
			n.Kids = append(n.Kids, g.node(depth-1))
		}
		return n
	case 1:
		n := &Node{Kind: KChoice, Sep: rapid.SampledFrom(choiceSeps).Draw(t, "csep")}
		for i, c := 0, rapid.IntRange(2, 3).Draw(t, "nkids"); i < c; i++ {
			n.Kids = append(n.Kids, g.node(depth-1))
		}
		return n
	case 2:
		return &Node{Kind: KOptional, Kids: []*Node{g.node(depth - 1)}}
	default:
		return &Node{Kind: KRep, Kids: []*Node{g.node(depth - 1)}}
	}
}

// GenSpec draws a spec AST over d (valid by construction: no option textually after a "--").
func GenSpec(t *rapid.T, d *Decls, cfg GenCfg) *Node {
	g := &specGen{t: t, d: d, cfg: cfg}
	return g.node(cfg.Depth)
}

// Item is one element of a command line before spelling: an option occurrence or a positional.
type Item struct {
	Opt int    `json:"opt"` // -1: positional
	Val string `json:"val,omitempty"`
	Pos string `json:"pos,omitempty"`
}

var optValues = []string{"v", "w", "7", "x", "a", "true", "v=w", "é", " v ", "w\t", "%Y-%m", "100%", "%s"}
var positionals = []string{"x", "y", "zz", "1", "-"}
var exoticPositionals = []string{"", "a=b", "é", " ", "x y", " x", "y "}

// itemCap stops repetitions from growing a sampled sentence beyond what the (subset-valued) group
// semantics of the model and the backtracking of the library handle in microseconds; longer inputs are
// the business of the pumping generator.
const itemCap = 12

type argvGen struct {
	t   *rapid.T
	d   *Decls
	cfg GenCfg
	// pumping: one repetition node is iterated pumpCount times, whatever the item cap says
	pumpNode  *Node
	pumpCount int
}

func (g *argvGen) optItem(o int) Item {
	if g.d.Opts[o].Bool {
		return Item{Opt: o, Val: "true"}
	}
	return Item{Opt: o, Val: rapid.SampledFrom(optValues).Draw(g.t, "val")}
}

func (g *argvGen) positional() string {
	if g.cfg.Exotic && chance(g.t, 1, 12, "exotic") {
		return rapid.SampledFrom(exoticPositionals).Draw(g.t, "xpos")
	}
	return rapid.SampledFrom(positionals).Draw(g.t, "pos")
}

func (g *argvGen) sample(n *Node, out *[]Item) {
	t := g.t
	maxRep := g.cfg.MaxRep
	if maxRep == 0 {
		maxRep = 3
	}
	switch n.Kind {
	case KSeq:
		for _, k := range n.Kids {
			g.sample(k, out)
		}
	case KChoice:
		g.sample(n.Kids[intn(t, len(n.Kids), "branch")], out)
	case KOptional:
		if chance(t, 1, 2, "take") {
			g.sample(n.Kids[0], out)
		}
	case KRep:
		if n == g.pumpNode {
			for i := 0; i < g.pumpCount; i++ {
				g.sample(n.Kids[0], out)
			}
			return
		}
		for i, c := 0, rapid.IntRange(1, maxRep).Draw(t, "reps"); i < c && (i == 0 || len(*out) < itemCap); i++ {
			g.sample(n.Kids[0], out)
		}
	case KOpt:
		if g.d.Opts[n.Opt].Env && chance(t, 1, 2, "useenv") {
			return
		}
		*out = append(*out, g.optItem(n.Opt))
	case KGroup:
		for i, c := 0, rapid.IntRange(1, 3).Draw(t, "gocc"); i < c && (i == 0 || len(*out) < itemCap); i++ {
			*out = append(*out, g.optItem(n.Group[intn(t, len(n.Group), "gpick")]))
		}
	case KArg:
		*out = append(*out, Item{Opt: -1, Pos: g.positional()})
	case KDD:
		if chance(t, 1, 3, "writedd") {
			*out = append(*out, Item{Opt: -1, Pos: "--"})
		}
	}
}

// SamplePumped samples a sentence in which one repetition (chosen at random) is iterated count times.
func SamplePumped(t *rapid.T, d *Decls, ast *Node, cfg GenCfg, count int) ([]Item, bool) {
	var reps []*Node
	ast.Walk(func(n *Node) {
		if n.Kind == KRep {
			reps = append(reps, n)
		}
	})
	if len(reps) == 0 {
		return nil, false
	}
	g := &argvGen{t: t, d: d, cfg: cfg, pumpNode: reps[intn(t, len(reps), "pumpnode")], pumpCount: count}
	var items []Item
	g.sample(ast, &items)
	return items, true
}

// SampleItems walks the AST and emits the items of one sentence.
func SampleItems(t *rapid.T, d *Decls, ast *Node, cfg GenCfg) []Item {
	g := &argvGen{t: t, d: d, cfg: cfg}
	var items []Item
	g.sample(ast, &items)
	return items
}

// Spell turns items into tokens, choosing a documented spelling per occurrence and folding
// adjacent short-spelled occurrences at random.
func Spell(t *rapid.T, d *Decls, items []Item) []string { return SpellX(t, d, items, false) }

// SpellX is Spell; with foldEq the last member of a folded token may carry "=value" ("-ab=true", "-abo=v"): a token shape
// the library reads but no property fixes the reading of (only used where the library is compared with itself).
func SpellX(t *rapid.T, d *Decls, items []Item, foldEq bool) []string {
	var out []string
	for i := 0; i < len(items); i++ {
		it := items[i]
		if it.Opt < 0 {
			out = append(out, it.Pos)
			continue
		}
		o := d.Opts[it.Opt]
		name := o.Names[intn(t, len(o.Names), "spellname")]
		long := len(name) > 2
		if o.Bool {
			if !long && chance(t, 1, 2, "fold") {
				tok := name
				j := i + 1
				for j < len(items) && items[j].Opt >= 0 && chance(t, 2, 3, "foldmore") {
					sn := d.Opts[items[j].Opt].ShortName()
					if sn == "" {
						break
					}
					tok += sn[1:]
					if !d.Opts[items[j].Opt].Bool {
						// a value starting with '-' cannot be written in the separate form, one starting with '=' not in the
						// attached form (C10's precondition): the remaining forms stay interchangeable
						dashV, eqV := strings.HasPrefix(items[j].Val, "-"), strings.HasPrefix(items[j].Val, "=")
						if foldEq && chance(t, 1, 2, "foldeqv") {
							out = append(out, tok+"="+items[j].Val)
						} else if !eqV && (dashV || chance(t, 1, 2, "attach")) {
							tok += items[j].Val
							out = append(out, tok)
						} else {
							out = append(out, tok, items[j].Val)
						}
						tok = ""
						j++
						break
					}
					j++
				}
				if tok != "" {
					if foldEq && len(tok) > 2 && chance(t, 1, 2, "foldeqtrue") {
						tok += "=true"
					}
					out = append(out, tok)
				}
				i = j - 1
				continue
			}
			if chance(t, 1, 5, "eqtrue") {
				out = append(out, name+"=true")
			} else {
				out = append(out, name)
			}
			continue
		}
		k := intn(t, 3, "vform")
		if strings.HasPrefix(it.Val, "-") && (k == 0 || (long && k == 2)) {
			k = 1 // not the separate form
		}
		if strings.HasPrefix(it.Val, "=") && !long && k == 2 {
			k = 0 // not the attached form
		}
		switch {
		case k == 0:
			out = append(out, name, it.Val)
		case k == 1:
			out = append(out, name+"="+it.Val)
		default:
			if long {
				out = append(out, name, it.Val)
			} else {
				out = append(out, name+it.Val)
			}
		}
	}
	return out
}

// Soup is the hostile token pool.
var Soup = []string{"x", "y", "-", "--", "-z", "--zzz", "--out=", "-a=false", "-ab", "-ba", "-abo", "-ov", "-o", "--out", "v",
	"-a", "-b", "-c", "--all", "--cee", "-p", "--path=w", "-ao", "-oa", "-1", "--out=-x", "-o=-", "-o-", "-o=", "--all=true",
	"--all=", "-A", "-Ob", "--o-ut", "-", "--", "-=", "-a-", "--=x", "---", "-ab=true", "-abo=v", "-bo", "-co=x", "", "-é"}

// MutateArgv applies 0-2 token-level mutations.
func MutateArgv(t *rapid.T, argv []string) []string {
	n := intn(t, 3, "nmut")
	for i := 0; i < n; i++ {
		switch intn(t, 5, "mut") {
		case 0:
			p := intn(t, len(argv)+1, "at")
			argv = append(argv[:p:p], append([]string{rapid.SampledFrom(Soup).Draw(t, "soup")}, argv[p:]...)...)
		case 1:
			if len(argv) > 0 {
				p := intn(t, len(argv), "at")
				argv = append(argv[:p:p], argv[p+1:]...)
			}
		case 2:
			if len(argv) > 1 {
				p := intn(t, len(argv)-1, "at")
				argv = append([]string{}, argv...)
				argv[p], argv[p+1] = argv[p+1], argv[p]
			}
		case 3:
			p := len(argv)
			if !chance(t, 1, 3, "atend") {
				p = intn(t, len(argv)+1, "at")
			}
			argv = append(argv[:p:p], append([]string{"--"}, argv[p:]...)...)
		case 4:
			if len(argv) > 0 {
				p := intn(t, len(argv), "at")
				argv = append(argv[:p:p], append([]string{argv[p]}, argv[p:]...)...)
			}
		}
	}
	return argv
}

// GenArgv draws an argument vector from the three mixed sources and names the source.
func GenArgv(t *rapid.T, d *Decls, ast *Node, cfg GenCfg) ([]string, string) {
	switch k := intn(t, 8, "source"); {
	case k == 0:
		n := rapid.IntRange(0, 6).Draw(t, "nsoup")
		argv := []string{}
		for i := 0; i < n; i++ {
			argv = append(argv, rapid.SampledFrom(Soup).Draw(t, "soup"))
		}
		return argv, "soup"
	case k <= 3:
		return Spell(t, d, SampleItems(t, d, ast, cfg)), "sentence"
	default:
		return MutateArgv(t, Spell(t, d, SampleItems(t, d, ast, cfg))), "mutated"
	}
}

// Program is a declaration set plus a spec.
type Program struct {
	D       *Decls `json:"decls"`
	AST     *Node  `json:"ast"`
	SpecStr string `json:"spec"`
}

// GenProgram draws declarations and a spec.
func GenProgram(t *rapid.T, cfg GenCfg) Program {
	d := GenDecls(t, cfg)
	ast := GenSpec(t, d, cfg)
	return Program{D: d, AST: ast, SpecStr: ast.Render(d)}
}

// FmtDecls renders declarations compactly for messages.
func FmtDecls(d *Decls) string {
	var sb strings.Builder
	for _, o := range d.Opts {
		k := "val"
		if o.Bool {
			k = "flag"
		}
		if o.Env {
			k += "+env"
		}
		sb.WriteString(k + ":" + strings.Join(o.Names, ",") + " ")
	}
	for _, a := range d.Args {
		sb.WriteString(a.Name + " ")
	}
	return strings.TrimSpace(sb.String())
}
