package vh

import (
	"fmt"
	"testing"

	"pgregory.net/rapid"
)

// TestC05Exhaustive enumerates every fault plan up to depth VERIF_C05_DEPTH (4^(2d+3) plans per depth d).
func TestC05Exhaustive(t *testing.T) {
	st := StatsFor("C05")
	maxd := EnvInt("VERIF_C05_DEPTH", 2)
	nshards, shard := EnvInt("VERIF_NSHARDS", 1), EnvInt("VERIF_SHARD_INDEX", 0)
	for d := 0; d <= maxd; d++ {
		n := 2*d + 3
		total := int64(1) << (2 * uint(n))
		var evals, claimed, nontrivial int64
		beh := make([]int, n)
		for i := int64(shard); i < total; i += int64(nshards) {
			x := i
			for k := 0; k < n; k++ {
				beh[k] = int(x & 3)
				x >>= 2
			}
			c := &FlowCase{Depth: d, Beh: beh}
			evals++
			Begin("C05", "flow", c)
			v, cl, faulty := CheckC05(c)
			End()
			if v != nil {
				cc := &FlowCase{Depth: d, Beh: append([]int{}, beh...)}
				SaveFailure("C05", "flow", cc, v.Msg)
				t.Fatalf("C05/flow: %s", v.Msg)
			}
			if cl {
				claimed++
				if faulty && d >= 1 {
					nontrivial++
					if nontrivial%50021 == 1 {
						st.AddSample(map[string]interface{}{"depth": d, "beh": append([]int{}, beh...)})
					}
				}
			}
		}
		st.EvalN(evals)
		st.AddDistinct(nontrivial)
		st.ClassN(fmt.Sprintf("exhaustive:depth%d:plans", d), evals)
		st.ClassN(fmt.Sprintf("exhaustive:depth%d:claimed", d), claimed)
		st.ClassN("exhaustive:unclaimed-no-action", evals-claimed)
	}
}

// TestC05Random: deeper paths, sibling commands and commands below the addressed one whose hooks must never run.
func TestC05Random(t *testing.T) {
	st := StatsFor("C05")
	rapid.Check(t, func(rt *rapid.T) {
		d := rapid.IntRange(0, 8).Draw(rt, "depth")
		c := &FlowCase{Depth: d, Siblings: chance(rt, 1, 2, "siblings"), Below: chance(rt, 1, 2, "below"), Twice: chance(rt, 1, 3, "twice"), Policy: intn(rt, 3, "policy")}
		for i := 0; i < 2*d+3; i++ {
			// bias towards "returns" so that deep Befores are reached
			b := rapid.SampledFrom([]int{HReturns, HReturns, HReturns, HAbsent, HPanics, HExits}).Draw(rt, "beh")
			c.Beh = append(c.Beh, b)
		}
		if chance(rt, 1, 4, "helpinhooks") {
			for i := 0; i < 2*d+3; i++ {
				c.HelpIn = append(c.HelpIn, chance(rt, 1, 3, "helpin"))
			}
			st.Class("random:a-hook-prints-the-root-help")
		}
		st.Eval()
		Begin("C05", "flow", c)
		v, cl, faulty := CheckC05(c)
		End()
		Report(rt, "C05", "flow", c, v)
		if cl {
			st.Class("random:claimed")
			if faulty && d >= 1 {
				st.Class("random:faulty")
				// a random plan that is also one of the enumerated ones (same depth range, no extra commands, one run) is
				// already counted there
				if d > EnvInt("VERIF_C05_DEPTH", 4) || c.Siblings || c.Below || c.Twice || c.HelpIn != nil || c.Policy != 0 {
					st.NonTrivial(fmt.Sprint("r", d, c.Beh, c.Siblings, c.Below, c.Twice, c.HelpIn, c.Policy), func() interface{} { return c })
				}
			}
			if d >= 6 {
				st.Class("random:depth>=6")
			}
			if c.Twice {
				st.Class("random:second-run-on-the-same-application")
			}
		} else {
			st.Class("random:unclaimed-no-action")
		}
	})
}
