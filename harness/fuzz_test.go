package vh

import (
	"bytes"
	"strings"
	"testing"

	"pgregory.net/rapid"
)

// Native (coverage-guided) fuzz targets: thorough tier only. The semantic oracle sits inside each target and all
// library state is per call (streams/exit are swapped by the adapters at the top of every iteration).

// FuzzSpecString: bytes = spec string over a fixed declaration set (C08 oracle).
func FuzzSpecString(f *testing.F) {
	for _, s := range []string{"", "[-a] X...", "-a | --aa", "-- X", "(X|Y)... -a=<v>", "[OPTIONS] X", "-ab", "[X --]", "- X", "---", "X... Y", "-a-"} {
		f.Add([]byte(s))
	}
	if b, err := readCorpus(); err == nil {
		for _, s := range b {
			f.Add([]byte(s))
		}
	}
	opts, args := []string{"-a --aa", "-b"}, []string{"X", "Y"}
	params, declared := specParams(opts, args)
	f.Fuzz(func(t *testing.T, spec []byte) {
		if len(spec) > 200 {
			return
		}
		s := string(spec)
		v, _ := CheckSpecString(s, params, declared)
		if v == nil {
			c := NewSpecCase(s, opts, args)
			v = CheckSpecViaRun(c)
		}
		if v != nil {
			c := NewSpecCase(s, opts, args)
			c.ViaRun = true
			SaveFailure("C08", "spec", c, v.Msg)
			t.Fatalf("C08/spec: %s", v.Msg)
		}
	})
}

func readCorpus() ([]string, error) {
	b, err := readFile("testdata/spec_corpus.txt")
	if err != nil {
		return nil, err
	}
	var out []string
	for _, l := range strings.Split(string(b), "\n") {
		if l != "" {
			out = append(out, l)
		}
	}
	return out, nil
}

// FuzzCompileAndParse: first line = spec, remaining lines = argv, first byte selects the env-backed subset (C03 oracle).
func FuzzCompileAndParse(f *testing.F) {
	for _, s := range []string{"\x00[-a] X\nx", "\x03[[X]...]...\nx\ny", "\x01(--)...\na", "\x02-b... X\nv", "\x03[-a...] X\nx", "\x00X\n-", "\x01OPTIONS...\n-a\n-b\nv", "\x03(-a | -b | X)...\nx\n-a\nx\n--\n-b"} {
		f.Add([]byte(s))
	}
	f.Fuzz(func(t *testing.T, data []byte) {
		if len(data) < 1 || len(data) > 400 {
			return
		}
		sel := data[0]
		lines := bytes.Split(data[1:], []byte("\n"))
		if len(lines) > 40 {
			return
		}
		c := &TermCase{Spec: lines[0], Opts: []OptDecl{{Names: []string{"-a", "--aa"}, Bool: true}, {Names: []string{"-b"}, Bool: false}}, Args: []string{"X", "Y"}, Source: "native-fuzz"}
		for _, l := range lines[1:] {
			if bytes.IndexByte(l, 0) >= 0 {
				return
			}
			c.Argv = append(c.Argv, string(l))
		}
		var set []int
		if sel&1 != 0 {
			set = append(set, 0)
		}
		if sel&2 != 0 {
			set = append(set, 1)
		}
		c.EnvSets = [][]int{set}
		c.Quoted = quoteBytes(c.Spec)
		if v := CheckC03(c, StatsFor("C03.fuzz")); v != nil {
			SaveFailure("C03", "term", c, v.Msg)
			t.Fatalf("C03/term: %s", v.Msg)
		}
	})
}

// FuzzStructured: the C01 case generator driven by the fuzzer's bytes (C01 + C02 oracles).
func FuzzStructured(f *testing.F) {
	st1, st2 := StatsFor("C01.fuzz"), StatsFor("C02.fuzz")
	f.Fuzz(rapid.MakeFuzz(func(rt *rapid.T) {
		c := GenParseCase(rt, parseCfg)
		Report(rt, "C01", "parse", c, CheckC01(c, st1))
		Report(rt, "C02", "parse", c, CheckC02(c, st2))
	}))
}

// FuzzNumericToken: bytes = token, one selector byte for type and route (C13 oracle).
func FuzzNumericToken(f *testing.F) {
	for _, s := range TokPool {
		f.Add(byte(2), s)
		f.Add(byte(3), s)
		f.Add(byte(0), s)
		f.Add(byte(0x15), s)
		f.Add(byte(0x26), s)
	}
	f.Fuzz(func(t *testing.T, sel byte, tok string) {
		if tok == "" || len(tok) > 64 || strings.ContainsRune(tok, 0) {
			return
		}
		typ := int(sel&0x0f) % 7
		route := int(sel>>4) % 3 // 0 option --opt=T, 1 argument after --, 2 environment
		vc := VContainer{Typ: typ}
		switch elemType(typ) {
		case TBool:
			vc.Default = []string{"false"}
		case TString:
			vc.Default = []string{"d"}
		default:
			vc.Default = []string{"5"}
		}
		if multi(typ) {
			vc.Default = nil
		}
		c := &ValueCase{ArgDD: true, WriteDD: true}
		switch route {
		case 0:
			vc.Cli = []CliVal{{Tok: tok, Form: 0}}
		case 1:
			vc.IsArg = true
			if tok == "--" {
				return
			}
			vc.Cli = []CliVal{{Tok: tok}}
		default:
			if multi(typ) && strings.Contains(tok, ",") {
				return
			}
			vc.Env = []EnvVar{{Set: true, Val: tok}}
		}
		c.Cs = []VContainer{vc}
		if v, _ := CheckValues("C13", c, StatsFor("C13.fuzz")); v != nil {
			SaveFailure("C13", "values", c, v.Msg)
			t.Fatalf("C13/values: %s", v.Msg)
		}
	})
}
