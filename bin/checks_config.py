"""Per-property configuration of bin/check: which test functions decide the property, how many
generated cases per tier, the rule that makes a case non-trivial, assumptions."""

COMMON_ASSUMPTIONS = [
    "the harness (reference model, generators, adapters) in /verif/harness is itself correct; it was validated by the sensitivity runs recorded in DESIGN.md",
    "generated-input search: a green run means the property held on the cases generated, not on all inputs",
    "go toolchain, pgregory.net/rapid v1.3.0",
]

CHECKS = {
    "C01": {
        "tests": [
            {"name": "TestC01", "quick": 48000, "thorough": 1600000},
        ],
        "rule": "cases = (declaration set, spec AST rendered to a spec string, argv) drawn by rapid from sentence sampling / token mutation / hostile token soup; "
                "oracle = set-based reference semantics (DESIGN.md section 3) versus 'the Action ran' under ContinueOnError, both directions; "
                "non-trivial = claimed case whose spec has >= 2 operators and on which the reference run had >= 2 live configurations at some step "
                "or extracted an option occurrence from behind another token; distinct = by (declarations, spec string, argv)",
        "required_classes": {"verdict:accept": 0.15, "verdict:reject": 0.10, "spec:has-group": 0.05, "spec:has-dd": 0.02,
                             "decls:env-backed": 0.10, "argv:folded-token": 0.03, "spec:rep-choice-optional-nest": 0.02},
        "assumptions": COMMON_ASSUMPTIONS + ["argv length sampled up to the pumping bound only; unclaimed classes of DESIGN.md 3.4 are counted, not asserted"],
    },
    "C02": {
        "tests": [
            {"name": "TestC02", "quick": 48000, "thorough": 1600000},
        ],
        "rule": "same generator as C01; on every accepted claimed case the values recorded by recorder value types (every Set call, in order, per container) must be "
                "the bindings of some derivation of the reference semantics (verification mode) and untouched containers must keep their declaration-time content; "
                "non-trivial = accepted case where the reference run had >= 2 live configurations or extracted an occurrence from behind another token",
        "required_classes": {"verdict:accept": 0.15},
        "assumptions": COMMON_ASSUMPTIONS,
    },
}
