"""Per-property configuration of bin/check: which test functions decide the property, how many
generated cases per tier, the rule that makes a case non-trivial, assumptions."""

COMMON_ASSUMPTIONS = [
    "the harness (reference model, generators, adapters) in /verif/harness is itself correct; it was validated by the sensitivity runs recorded in DESIGN.md",
    "generated-input search: a green run means the property held on the cases generated, not on all inputs",
    "go toolchain, pgregory.net/rapid v1.3.0",
]

CHECKS = {
    "C01": {
        "tests": [
            {"name": "TestC01", "quick": 320000, "thorough": 3200000},
            {"name": "TestC01Pump", "quick": 16000, "thorough": 160000},
        ],
        "fuzz": [{"name": "FuzzStructured", "time": "180s"}],
        "rule": "cases = (declaration set, spec AST rendered to a spec string, argv) drawn by rapid from sentence sampling / token mutation / hostile token soup; "
                "oracle = set-based reference semantics (DESIGN.md section 3) versus 'the Action ran' under ContinueOnError, both directions; "
                "non-trivial = claimed case whose spec has >= 2 operators and on which the reference run had >= 2 live configurations at some step "
                "or extracted an option occurrence from behind another token; distinct = by (declarations, spec string, argv)",
        "required_classes": {"verdict:accept": 0.15, "verdict:reject": 0.10, "spec:has-group": 0.05, "spec:has-dd": 0.02,
                             "decls:env-backed": 0.10, "argv:folded-token": 0.03, "spec:rep-choice-optional-nest": 0.02},
        "assumptions": COMMON_ASSUMPTIONS + ["TestC01Pump iterates one repetition 20-150 times (argv of 50-400 tokens) on group-free specs within the ambiguity bound", "argv length sampled up to the pumping bound only; unclaimed classes of DESIGN.md 3.4 are counted, not asserted"],
    },
    "C02": {
        "tests": [
            {"name": "TestC02", "quick": 320000, "thorough": 3200000},
        ],
        "rule": "same generator as C01; on every accepted claimed case the values recorded by recorder value types (every Set call, in order, per container) must be "
                "the bindings of some derivation of the reference semantics (verification mode) and untouched containers must keep their declaration-time content; "
                "non-trivial = accepted case where the reference run had >= 2 live configurations or extracted an occurrence from behind another token",
        "required_classes": {"verdict:accept": 0.15},
        "assumptions": COMMON_ASSUMPTIONS,
    },
    "C09": {
        "tests": [
            {"name": "TestC09Transparency", "quick": 320000, "thorough": 2400000},
            {"name": "TestC09Tail", "quick": 320000, "thorough": 2400000},
            {"name": "TestC09DoubleDD", "quick": 160000, "thorough": 1600000},
        ],
        "rule": "(1) transparency: programs without spec-level -- and without env-backed options, argv from the C01 sources (accepted and rejected) not containing -- ; "
                "the trailing block = maximal suffix of tokens not starting with '-' and not the separate-form value of a valued option (spec-independent lexing); "
                "for EVERY insertion point from the start of the block to the very end, inserting -- must leave acceptance and all bound values unchanged (evaluations count insertion points); "
                "(2) verbatim tail: specs 'P -- T' and 'P [--] T' (P options only, T one of X... / X [Y...] / [X...] / X Y), argv = sentence of P ++ tail of arbitrary tokens "
                "(first one non-dash, or an explicit --): accepted with the tail bound verbatim in order iff the arity fits; (3) outcome of ('P -- T', p t) == outcome of ('P T', p -- t); "
                "(4) TestC09DoubleDD: specs holding TWO spec-level -- in the nestings of the README's '[-- CMD [ARG...]] -- FILE...', command lines with dash-prefixed tokens sprinkled in, verdict and bindings judged by the reference semantics; plus the reference-model verdict on every run. non-trivial = insertion point with an option before and a token after, or the very-end point on an accepted line, "
                "or a tail containing a dash-prefixed token; distinct by (program, argv, point/tail)",
        "required_classes": {"insert:very-end-accepted": 0.05, "insert:opts-before-tokens-after": 0.005, "tail:has-dash-prefixed-token": 0.05, "tail:spec-dd-equals-cmdline-dd": 0.05, "tail:spec-dd-is-optional": 0.03, "doubledd:dash-token-bound-as-data": 0.02},
        "assumptions": COMMON_ASSUMPTIONS + ["argv tokens of the shape '-f-...' (dash after flag letters, whose residue the library reads as --) are set aside and counted"],
    },
    "C10": {
        "tests": [{"name": "TestC10", "quick": 480000, "thorough": 4800000}],
        "rule": "programs without spec-level --; an item sequence (sentence sampling, then item-level drop/duplicate/insert/swap so rejected lines are included; values non-empty; "
                "a value starting with '-' is never spelled in the separate form, one starting with '=' never in the attached form, every other form is used) is spelled twice "
                "independently (re-drawn up to four times while both spellings coincide): per occurrence a random documented spelling and a random folding of adjacent short-spelled occurrences; "
                "items after a command-line -- are data and kept identical; oracle: identical acceptance and identical bound values (a disagreement of the "
                "common verdict with the reference model is C01's business: counted as deferred-to-C01, not reported); non-trivial = the two token vectors differ in >= 2 positions and one contains a folded token; distinct by (program, both argvs)",
        "required_classes": {"different-spelling": 0.2, "verdict:accept": 0.2, "verdict:reject": 0.1},
        "assumptions": COMMON_ASSUMPTIONS,
    },
    "C11": {
        "tests": [{"name": "TestC11", "quick": 480000, "thorough": 4800000}],
        "rule": "generator of C10; one adjacent pair of occurrences of different options (before any --) is swapped at item level and both sequences are spelled independently; "
                "up to eight sentences are sampled to find one holding such a pair (kept unmutated two times out of three), otherwise a pair is inserted; "
                "oracle: identical acceptance and bound values (model disagreements are deferred to C01); non-trivial = a spelling in which an occurrence spans two tokens or sits in "
                "a fold while the swapped pair holds a valued option or two short-named ones; "
                "distinct by (program, both argvs)",
        "required_classes": {"swap:two-token-or-fold": 0.2, "verdict:accept": 0.05},
        "assumptions": COMMON_ASSUMPTIONS,
    },
    "C12": {
        "tests": [{"name": "TestC12", "quick": 80000, "thorough": 800000}],
        "rule": "C01 programs (spec-level -- allowed); argv from sentence sampling in which would-be env-backed options are omitted at random, optionally token-mutated; "
                "the same argv is run with no option env-backed and with EVERY non-empty subset of the options env-backed (<= 4 options: all 2^n-1 subsets; above: 8 random subsets); "
                "evaluations count (case, subset) runs; in a third of the cases a folded token may end in '=value' ('-ab=true', '-abo=v'): the reference semantics leaves the reading of "
                "that shape open, so for those argvs only the metamorphic clauses are asserted; oracle: accepted(empty) => accepted(E); for specs without -- identical option value lists "
                "(known finding F11: the value of o in '-<flags>o=v' is read as 'v' or '=v' depending on matcher order); reference-model verdict under E; "
                "non-trivial = E non-empty, accepted under E, and an option of E occurs 0 times (fallback) or >= 2 times on the command line; distinct by (program, argv, E)",
        "required_classes": {"env-enlarges": 0.01, "both-accept": 0.2, "token-shape:metamorphic-clauses-only": 0.003},
        "assumptions": COMMON_ASSUMPTIONS,
    },
    "C08": {
        "tests": [
            {"name": "TestC08Exhaustive", "quick": 16, "thorough": 16, "rapid": False, "timeout": 1500,
             "env": {"VERIF_C08_L": 6, "VERIF_C08_NAMINGS": "all", "VERIF_C08_L2": 5}, "env_thorough": {"VERIF_C08_L": 7, "VERIF_C08_L2": 6}},
            {"name": "TestC08Random", "quick": 480000, "thorough": 4800000, "env": {"VERIF_C08_L": 5}, "env_thorough": {"VERIF_C08_L": 6}},
        ],
        "fuzz": [{"name": "FuzzSpecString", "time": "180s"}],
        "rule": "(a) EXHAUSTIVE: every string up to length L over the 19-symbol character-class alphabet {space, TAB, [ ] ( ) | . - = < > a b X Y 1 _ 0xC3} "
                "(quick: L=6 for the naming 'a/--aa declared, b undeclared, X declared, Y undeclared' and L=5 for two further namings; thorough: L=7 and L=6) is given to "
                "lexer.Tokenize + parser.Parse and to an independent recogniser (regex tokenizer + LL(1) parser written from the statement): same verdict; on success the token list "
                "tiles the string (text, position, type of every token; every non-blank byte in exactly one token); on failure 0 <= Pos <= len and Pos within the offending token; "
                "a 1/61 sample plus all strings of length <= 4 also go through the public API (Run panics with *lexer.ParseError before any hook); "
                "(b) rapid: grammar-derived specs (valid by construction) with names undeclared at random, 1-2 byte/fragment edits, edited strings of a 303-string corpus extracted from the "
                "repository's tests and docs, alphabet-biased byte strings, all through both routes. non-trivial = compiled with >= 3 tokens or rejected at a position > 0; "
                "enumerated strings are distinct by construction, random ones by (string, declared names). The 'exhaustive' flag refers to part (a) up to the stated L only.",
        "exhaustive": True,
        "required_classes": {"verdict:compiled": 0.0005, "verdict:rejected": 0.0005, "exhaustive:compiled": 0.00001},
        "assumptions": COMMON_ASSUMPTIONS + ["strings longer than L are only sampled (keyword OPTIONS, long names, annotations with blanks come from the rapid sources)"],
    },
    "C03": {
        "tests": [{"name": "TestC03", "quick": 120000, "thorough": 1600000, "deadline": "10s"}],
        "fuzz": [{"name": "FuzzCompileAndParse", "time": "240s"}],
        "rule": "cases = (spec string, declarations, argv, environment subsets); spec sources: grammar-derived with nesting turned up (depth 5: repetitions of optionals of repetitions, -- and option "
                "groups inside repetitions), the same with byte/fragment edits, edited strings of the repository corpus, alphabet-biased and raw byte strings; argv from the C01 sources, "
                "hostile token soup, and pumped to 20-200 tokens; EVERY subset of the options env-backed when <= 4 options (else 8 random subsets) - evaluations count (case, subset) runs; "
                "each run executes in-process under a 64 MB stack cap, a journal and a 10 s per-call watchdog: a dead or silent worker is re-run twice from the journal in fresh processes; "
                "oracle: exactly one of {spec error = panic(*lexer.ParseError) with 0 <= Pos <= len(spec) and a printable message, accepted, usage error, help}; "
                "non-trivial = spec with a repetition whose body can match without consuming (optional, --, env-backed option) or containing non-UTF-8/control bytes; distinct by (spec, argv, subset)",
        "required_classes": {"outcome:accepted": 0.1, "outcome:spec-error": 0.05, "outcome:usage-error": 0.1, "spec:nested-repetition-of-nullable-or-env": 0.005, "env:some-option-backed": 0.3},
        "assumptions": COMMON_ASSUMPTIONS + ["'never hangs' is decided by a 10 s per-call deadline (normal cost is microseconds) confirmed twice in a fresh process with three times the shard's per-case deadline (30 s)"],
    },
    "C05": {
        "level": "fault_enumeration",
        "tests": [
            {"name": "TestC05Exhaustive", "quick": 16, "thorough": 16, "rapid": False, "timeout": 1500,
             "env": {"VERIF_C05_DEPTH": 4}, "env_thorough": {"VERIF_C05_DEPTH": 5}},
            {"name": "TestC05Random", "quick": 160000, "thorough": 1600000, "env": {"VERIF_C05_DEPTH": 4}, "env_thorough": {"VERIF_C05_DEPTH": 5}},
        ],
        "rule": "fault plan = path depth d and, for each of the 2d+3 hooks (Before_0..Before_d, Action, After_0..After_d), one of {absent, returns, panics with a unique pointer value, calls Exit(100+i)}; "
                "the 4^(2d+3) plans are ENUMERATED COMPLETELY for every d <= 4 (quick; 4 473 920 plans) / d <= 5 (thorough; 71 582 784 plans); rapid adds random plans at depth 0-8 with sibling commands at every level "
                "and a command below the addressed one whose hooks must never run, and in a third of the random plans a SECOND Run of the same application object with the same vector (it must behave like the first); every third hook exits with status 0 (Exit(0) is an exit like any other); oracle: reference model of the statement (order, multiplicity, Afters of exactly the levels whose Before completed, "
                "last raised value decides: Exit(n) -> exit stub called once with n after the last After (the stub's call is an entry of the same log), other value -> the identical pointer is recovered from Run); "
                "plans whose addressed command has no Action are not claimed (library prints help) and only get weak invariants; non-trivial = claimed plan with >= 1 panicking/exiting hook and d >= 1; plans are distinct by construction",
        "exhaustive": True,
        "required_classes": {"random:faulty": 0.001, "random:depth>=6": 0.0005, "random:second-run-on-the-same-application": 0.0005},
        "assumptions": COMMON_ASSUMPTIONS + ["the exit stub never returns (like os.Exit): it panics with a private sentinel recovered around Run; hooks are plain closures, no goroutines"],
    },
    "C04": {
        "tests": [{"name": "TestC04", "quick": 256000, "thorough": 2400000}],
        "rule": "cases = (command tree of depth <= 3, fan-out <= 3, 1-3 aliases per command, own declarations and own explicit or implicit spec per command, Action on ~80% of the commands and on the addressed one; "
                "a path spelled with a random alias per level; per-level tokens from sentence sampling, token mutation, trailing unknown words); oracle: the vector is split at alias tokens, every level is judged by the "
                "reference semantics on its own tokens; all levels accept -> hook log is exactly Before(root..leaf), the leaf's Action once, After(leaf..root) and every level's recorder bindings are a derivation of that level's tokens; "
                "otherwise Run reports an error and nothing ran. non-trivial = accepted routing of depth >= 2 with a non-empty level and a non-first alias; distinct by (argv, policy)",
        "required_classes": {"kind:accept": 0.2, "kind:reject": 0.1, "accept:depth>=1": 0.05, "accept:two-levels-with-identical-declarations": 0.0005},
        "assumptions": COMMON_ASSUMPTIONS + ["per-level tokens never spell an alias of a direct subcommand (precondition of the property; aliases use a reserved shape)"],
    },
    "C07": {
        "tests": [{"name": "TestC07", "quick": 256000, "thorough": 2400000},
                  {"name": "TestC07Values", "quick": 320000, "thorough": 3200000}],
        "rule": "tree generator of C04 x the three error policies (set on the app before any command is declared; in addition ~1/3 of the sub commands on the path assign their own policy at the start of their initializer, which their descendants inherit) x rejection kinds: spec mismatch at a random level (token mutation), unknown subcommand / undeclared option "
                "words, a token no value type can convert (every container is a recorder failing on one reserved token); oracle: the first level the reference semantics rejects is the rejecting command; "
                "no hook log entry; error stream contains the error text and 'Usage: <path of the rejecting command>'; ContinueOnError -> returned error, no exit; ExitOnError -> exit stub called once with 2; "
                "PanicOnError -> Run panics with an error whose text is in the stream; the error text of the same invocation under ContinueOnError is in the stream (the streams themselves are not compared); accepted invocations return nil, no exit, no panic. "
                "TestC07Values repeats the policy oracle on single-command apps whose containers are the BUILT-IN typed values (C06 generator, tokens that strconv rejects in any position, also before a valid occurrence of the same option). "
                "non-trivial = rejection at depth >= 1 or conversion failure; distinct by (argv, policy)",
        "required_classes": {"kind:reject": 0.15, "reject:conversion": 0.01, "kind:accept": 0.02, "typed:conversion-failure-follows-policy": 0.05, "typed:unconvertible-value-before-a-valid-one": 0.01, "reject:under-a-policy-set-on-a-subcommand": 0.005},
        "assumptions": COMMON_ASSUMPTIONS + ["message wording is not compared, only its presence in the stream"],
    },
    "C14": {
        "tests": [{"name": "TestC14", "quick": 256000, "thorough": 2400000}],
        "rule": "tree generator of C04 x three policies; a -h/--help token inserted at a random position of a random level (whose other tokens may be invalid), sometimes behind a '--' of the same level (then it is data); "
                "a version flag as first argument on apps declaring a version; oracle: the command addressed by the aliases preceding the token prints 'Usage: <full path>' and its own LongDesc word and no other command's; "
                "hook log empty; ExitOnError -> exit(0) once, otherwise Run returns nil without panic; version: the version string is printed, same ending. "
                "not claimed (counted): a help token below an ancestor whose own tokens contain '--'. non-trivial = help at depth >= 1 or behind ancestor tokens invalid for their level, or a version request; distinct by (argv, policy)",
        "required_classes": {"kind:help": 0.3, "kind:version": 0.02, "help:after-invalid-ancestor-args": 0.01, "help:token-after-dd-is-data": 0.01, "help:tokens-at-several-levels": 0.01, "version:declared-not-requested-name-reused-by-subcommand": 0.01},
        "assumptions": COMMON_ASSUMPTIONS,
    },
    "C06": {
        "tests": [{"name": "TestC06", "quick": 640000, "thorough": 6400000}],
        "rule": "cases = apps with 1-3 containers (<= 2 options named o/opt, p/popt and <= 1 argument X) of the seven built-in types declared through the typed API (BoolOpt ... Floats64Arg) with a default "
                "(incl. zero/empty), an environment list of 0-3 variables each unset / empty / valid / invalid (multi-valued: comma lists with blank padding), and 0-3 command-line values spelled "
                "--opt=T / -o=T / -o T / -oT / --opt T / bare flag (options under [OPTIONS] or one optional repetition per option) or positionally (argument under [X...] / [X], with the command line's own -- in front when a value starts with a dash); "
                "oracle: the statement itself with strconv as validity judge - command-line values if any (multi: exactly those, single: last), else first non-empty valid variable, else default; "
                "twin containers share one default slice object; a third of the containers use the *Ptr API; in a quarter of the cases a SECOND command line is parsed by the same application object and every container given values again must hold exactly those. "
                "non-trivial = an accepted case with a container for which a command-line value or a non-empty variable competes with another source; distinct by full case",
        "required_classes": {"source:cli": 0.1, "source:env": 0.05, "source:default": 0.05, "container:multi-valued": 0.1, "sequence:second-command-line-on-same-app": 0.03, "container:shares-default-slice-with-twin": 0.01},
        "assumptions": COMMON_ASSUMPTIONS + ["F9 (invalid env list wipes a multi-valued default) is a recorded known finding, attributed by its exact case class and only when the observed value is empty"],
    },
    "C13": {
        "tests": [{"name": "TestC13", "quick": 800000, "thorough": 8000000}],
        "fuzz": [{"name": "FuzzNumericToken", "time": "120s"}],
        "rule": "cases = one container of one of the seven built-in types x {option via --opt=T, -o=T, -oT, separate forms (non-dash T); argument} x {command line, environment (single: raw, multi: comma list)}; "
                "tokens T from a pool of ~70 numeric/boolean edge literals, a numeric-shape regex generator and short arbitrary strings; oracle: differential against strconv.ParseInt(s,10,64) / ParseFloat(s,64) / ParseBool "
                "(multi-valued env items after TrimSpace): accepted iff strconv accepts, bound value equal (floats by bit pattern), an unparsable command-line token => usage error and Action not run, strings byte-identical; "
                "non-trivial = a token strconv rejects, or accepts with a value whose canonical formatting differs from the token; distinct by full case",
        "required_classes": {"token:strconv-rejects": 0.05, "token:non-canonical-but-valid": 0.05, "route:environment": 0.03, "route:argument": 0.1, "route:option": 0.1, "outcome:usage-error-unparsable-token": 0.03, "app:several-containers": 0.05},
        "assumptions": COMMON_ASSUMPTIONS + ["int is 64 bit on the build platform"],
    },
    "C15": {
        "tests": [{"name": "TestC15", "quick": 640000, "thorough": 6400000},
                  {"name": "TestC15Parse", "quick": 240000, "thorough": 2400000}],
        "rule": "generator of C06 (a third of the containers declared through the *Ptr API) with a SetByUser pointer (initially false) on every container; oracle: after a successful parse the flag is true iff the generated command line holds >= 1 value for that container; TestC15Parse repeats the question on the C01 programs (ambiguous specs, backtracking): no container may be flagged without holding a command-line value (e.g. one merely tried on an abandoned branch), none may hold one without being flagged; "
                "non-trivial = accepted case with a container whose environment list has a non-empty variable (command line absent or present); distinct by full case",
        "required_classes": {"env-present-cli-absent": 0.03, "env-and-cli-present": 0.03, "kind:argument": 0.05, "kind:option": 0.05, "args:some-bound-some-not": 0.005},
        "assumptions": COMMON_ASSUMPTIONS,
    },
    "C16": {
        "tests": [{"name": "TestC16", "quick": 256000, "thorough": 2400000}],
        "rule": "cases = declaration sets (0-4 options with 1-3 names each, possibly env-backed; 0-3 arguments) declared in a random interleaved call order, and C01-style argvs (sentences, token mutations, soup); "
                "oracle: differential between two real apps built from the same declarations - Spec empty versus the explicit string '[OPTIONS] ARG1 ARG2 ...' assembled from the statement "
                "('[OPTIONS]' omitted without options, arguments in declaration order): identical acceptance, identical bound values, identical whitespace-normalised usage line which must equal "
                "'Usage: app <that spec>'; plus the reference-model verdict for the explicit spec; in a third of the cases a SECOND command line is given to the same application object of each variant (same outcome and usage line required again). non-trivial = >= 1 option, >= 2 arguments and a non-empty argv; distinct by (declarations, order, argv)",
        "required_classes": {"verdict:accept": 0.2, "verdict:reject": 0.1, "decls:no-option": 0.03, "decls:option-declared-after-argument": 0.1, "sequence:two-runs-on-one-app": 0.1, "decls:argument-with-environment-value": 0.05},
        "assumptions": COMMON_ASSUMPTIONS,
    },
    "C17": {
        "tests": [{"name": "TestC17", "quick": 320000, "thorough": 3200000}],
        "rule": "cases = a command at depth 0-2 with 0-4 arguments and 0-5 options of all seven built-in types declared in interleaved order (option names: only short, only long, several of each), "
                "multi-line / blank-padded / empty descriptions, environment lists of 0-3 names whose variables hold OTHER valid values at declaration time, defaults of every type (empty and non-empty), HideValue, "
                "0-4 subcommands with 1-3 aliases (a third Hidden), LongDesc set or not, implicit or explicit spec; help obtained through --help (long) or through a rejected invocation (short); "
                "every name/description/default is drawn from a distinctive vocabulary. oracle: usage line = path + spec words + COMMAND marker iff it has subcommands; description (long one iff long help and set); "
                "then ordered anchors (argument names, first short + first long option name, alias lists of visible subcommands), each row holding its description words, every $ENV name and the declared default iff "
                "non-empty and not hidden (numeric zero unasserted); rows of hidden/empty defaults show no default; every vocabulary-shaped word of the output is accounted for (nothing hidden, nothing undeclared, no environment value). "
                "non-trivial = case with a hidden command or hidden value, an env list and an option lacking a short or a long name; distinct by full case",
        "required_classes": {"has:hidden-command": 0.1, "has:hidden-value": 0.1, "has:env-list": 0.2, "route:short-help-after-rejection": 0.1, "depth>=1": 0.2},
        "assumptions": COMMON_ASSUMPTIONS + ["boilerplate wording and column layout are not compared"],
    },
    "C18": {
        "tests": [{"name": "TestC18", "quick": 800000, "thorough": 8000000}],
        "rule": "cases = sequences of 1-6 declaration calls; options carry 1-4 names drawn from a 12-name pool (so collisions inside one list, across options, between short and long forms and in either order are frequent), "
                "declared through eight styles (Var with recorder, BoolOpt/StringOpt/IntOpt structs, BoolOpt()/StringOpt()/StringsOpt() short forms, Version()); argument names from a pool of valid identifiers, duplicates and "
                "blank-free invalid strings (lower case, digit first, OPTIONS, A-B, A.B, empty, non-ASCII, X=, [X], X...); oracle: a name-table model - the panic must come at exactly the first colliding / invalid "
                "declaration and nowhere else; for every surviving declaration set each listed name is probed in its own run ('-n' / '--name[=v]', one-letter names short, others long) and exactly the owning variable "
                "must change while all others keep their defaults and the arguments receive the positionals in declaration order. non-trivial = first invalid declaration is not the first call, or a surviving set "
                "with an option of >= 3 names; distinct by the declaration sequence",
        "required_classes": {"outcome:all-accepted": 0.1, "panic:not-first-declaration": 0.1, "probe:name-addresses-own-variable": 0.1},
        "assumptions": COMMON_ASSUMPTIONS,
    },
    "C19": {
        "tests": [{"name": "TestC19", "quick": 256000, "thorough": 2400000}],
        "rule": "cases = programs whose every option and argument is an instrumented custom value type logging each Set and Clear, built from every subset of the optional methods "
                "(IsBoolFlag returning true or false, Clear, IsDefault), with scripted Set failures, optional environment lists (valid, padded, failing items), specs '[OPTIONS] X...', '-c... X' and random ones, "
                "argv from the C01 sources; oracle: invariants over the call log - at declaration exactly (Clear,) Set(trimmed environment items) per SetFromEnv's documented protocol; on a rejected line no call at all; "
                "on an accepted line, per container, exactly one Clear first iff the type has Clear and the command line supplies something, then Set calls whose token lists form a derivation of the reference "
                "semantics (bare flags give Set(\"true\") iff IsBoolFlag() is true); a failing Set ends the calls to that value and makes the invocation a usage error without Action. "
                "non-trivial = accepted run with >= 2 Set calls and a Clear, or a failing Set; distinct by full case",
        "required_classes": {"outcome:accepted": 0.2, "outcome:set-error-is-usage-error": 0.005, "type:flag-like-custom-type-used": 0.03, "type:isboolflag-false": 0.05},
        "assumptions": COMMON_ASSUMPTIONS + ["String/IsDefault/IsBoolFlag call counts are not asserted, only Set/Clear order and content"],
    },
    "C20": {
        "race": True,
        "tests": [{"name": "TestC20", "quick": 2400, "thorough": 32000, "deadline": "60s"}],
        "rule": "cases = batches of 8-48 complete applications (C01 programs with env-backed options and several command lines per program so that spec strings repeat inside a batch, command trees with "
                "hook logs, typed-value apps with environment lists); all environment variables of a batch get case-unique names and are set once before any goroutine starts; the harness is built with -race. "
                "oracle on the outcome record (acceptance, every bound value as read inside the Action, hook log, exit/panic status; no message wording): (1) each application rebuilt and rerun gives the same record, "
                "(1b) with its environment variables unset or overwritten between its declarations and its Run the record is the same (only the environment at declaration time counts), (2) the batch rerun in a second random order gives the same per-application records; every rebuild of an application is handed the very same argv slice and the same default slice objects (the library must not write to either), (3) 2-4 rounds with one goroutine per application (each builds and runs its own app; GOMAXPROCS 2 or 16) give the "
                "sequential records and the race detector stays silent (a report is turned into a VIOLATION with the batch as replay file). evaluations = batches; the class 'applications-run' counts single app executions. "
                "non-trivial = batch of >= 8 applications in which >= 2 share a spec string and >= 1 uses environment-backed containers; distinct by full batch",
        "required_classes": {"gomaxprocs:2": 0.1, "gomaxprocs:16": 0.1, "env-changed-between-declaration-and-run": 2.0},
        "assumptions": COMMON_ASSUMPTIONS + ["schedule coverage is whatever the Go scheduler produces in the rounds run; interleavings are sampled, not enumerated",
                                             "package-level streams and exit function are swapped once per batch for a mutex-protected discard writer (through the verif hook) before the goroutines start"],
    },
}

# ---- amendments after the oracle audit (appended to the rule texts; see DESIGN.md Appendix D) ----------------------
_AMEND = {
    "C01": "A quarter of the cases declare the library's own []string containers (one shared default slice) instead of recorders; a third of "
           "the recorders are a map type used by value (not hashable, not comparable) or a type answering IsBoolFlag()=false.",
    "C02": "'Written by the command line' is observed directly (a Set call on the recorder after the declaration finished), not read from the "
           "SetByUser flags (those are C15's); for the library's own containers it is inferred from a change of content, with the flags as tie-break.",
    "C03": "Containers are recorder types including a map type used by value (unhashable) and a type with IsBoolFlag()=false; a spec error wrapped "
           "in another error counts as the documented outcome.",
    "C04": "Added: command names may be reused by commands that are not siblings (descendants, cousins); a positional value may be spelled like a "
           "command elsewhere in the tree (not a direct sub command of its level); a quarter of the cases without unconvertible token declare the "
           "library's own []string containers at every level, all with ONE shared default slice; a sub command on the path may own an option "
           "spelled like the application's version flag; cases attributed to the greedy-group finding are still run and must follow either the greedy or the ideal verdict at that level. "
           "The streams are captured separately; C04 reads their union (it does not name a stream).",
    "C06": "Clause ownership: C06 reports only values (source precedence) of accepted runs; acceptance/strconv agreement is C13's, flags are C15's. "
           "Environment names are separated by one or two blanks (documented: a space separated list); list items are padded with space/TAB only.",
    "C07": "The output stream and the error stream are captured separately: error text and usage are looked for in the error stream only.",
    "C13": "Clause ownership: C13 reports acceptance (exactly when strconv accepts every command-line token) and the value of every container for "
           "which some token was converted; pure defaults are C06's, flags C15's. The empty token is delivered as a positional and as a separate-form value.",
    "C14": "The declared version string may be empty. Added: in a quarter of the cases only the root declares parameters (trees of depth <= 4) and, three times out of four, a first help "
           "request for an ancestor of the addressed command (or any command) is made on the SAME application object before the case's own "
           "command line (class sequence:second-run-on-same-app). Help and version text is looked for in the union of both streams.",
    "C15": "Clause ownership: C15 reports only the SetByUser flags of accepted runs (values are C06's/C13's); after a second command line on the "
           "same application object every container it supplies a value for must be flagged.",
    "C16": "In about a third of the cases the command under test is a sub command ('app sub ...'); the reference-model verdict of the explicit "
           "spec is only counted (deferred to C01).",
    "C17": "Sub command descriptions may have several lines (every line belongs to the row). Layout is not asserted: names of an option may stand in either order, environment names with or without '$', the default of a "
           "hidden value is looked for by its value (not by the '(default' wording), the COMMAND marker is not asserted when every sub command is hidden; "
           "non-ASCII option names have two letters (long options whether letters are counted in bytes or characters).",
    "C18": "Option names include mixed-case long names; in a quarter of the cases Spec is assigned before the declarations (then only the declaration-time part applies). Argument names whose status the statement leaves open are not generated (the word OPTIONS, non-ASCII upper-case or caseless letters, a leading underscore).",
    "C19": "A flag-like custom type is also given explicit literals other than true ('-f=0', '--flag=T'), which must reach Set as written. Blanks around environment items are not part of the asserted protocol; further Set calls after a failing one are allowed (counted); "
           "a sentence rejected by the library is deferred to C01.",
    "C20": "Shared default slices have spare capacity.",
    "C05": "Every other panic value implements error (as a runtime error or a hook panicking with an error does), and the random plans run under "
           "each of the three error policies: a valid invocation must not be affected by the policy (plans without Action stay under ContinueOnError).",
    "C09": "A fifth tail pattern 'X... Y' makes the parser backtrack after the options have ended.",
    "C12": "A flag's valid environment value may be false/0/F (it is 'given by the environment' all the same); the recorders of this check render "
           "their content in String(), as the flag.Value contract asks.",
}
for _k, _v in _AMEND.items():
    CHECKS[_k]["rule"] += " AMENDED: " + _v

_MORE_CLASSES = {
    "C04": {"accept:depth>=1,builtin-containers-sharing-one-default": 0.01, "accept:value-spelled-like-a-command-elsewhere-in-the-tree": 0.005,
            "accept:tree-reuses-a-command-name-on-another-branch-or-level": 0.05, "version:declared-not-requested-name-reused-by-subcommand": 0.003},
    "C14": {"sequence:second-run-on-same-app": 0.02},
    "C16": {"decls:command-under-test-is-a-sub-command": 0.1},
}
for _k, _v in _MORE_CLASSES.items():
    CHECKS[_k].setdefault("required_classes", {}).update(_v)
