NOT_BUILT_REASON = "not claimed yet: the check designed in DESIGN.md section 5 is not built/validated at this commit (work in progress, not a limitation of the technique)"

TRUST = "Trusts the harness itself (reference model / generators, validated by the sensitivity runs in DESIGN.md) and the generator's reach; unclaimed classes are counted in the evidence, never asserted."

TEXT = {
    "C01": {
        "level_text": "Differential property-based testing: rapid-generated (declarations, spec AST rendered to a spec string, argv) cases; the library's verdict (Action ran under ContinueOnError, Run's error) is compared in both directions with an independent set-based reference semantics of the spec language; 10^4-10^6 cases per run, shrunk failures become replay files. Held-on-everything-generated, not a proof; the unbounded-length clause is sampled by pumping only.",
        "design_ref": "DESIGN.md sections 3 and 5 (C01)",
        "level_note": TRUST + " F3 (greedy option group) is a recorded known finding: cases where only the greedy-group rule reproduces the library's verdict are attributed to it.",
        "technique": "property-based differential testing against a reference model (rapid), shrinking to a replay file",
    },
    "C02": {
        "level_text": "Property-based testing with a derivation verifier: on every accepted generated case the values observed by recorder value types (every Set call, in order, per container) must be exactly the bindings of some derivation of the reference semantics, and containers not given on the command line must keep their declaration-time content.",
        "design_ref": "DESIGN.md sections 3.2 and 5 (C02)",
        "level_note": TRUST + " Which of several valid derivations the parser picks is deliberately not constrained.",
        "technique": "property-based testing with a reference-model derivation verifier (rapid)",
    },
}
