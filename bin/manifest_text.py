NOT_BUILT_REASON = "not claimed yet: the check designed in DESIGN.md section 5 is not built/validated at this commit (work in progress, not a limitation of the technique)"

TRUST = "Trusts the harness itself (reference model / generators, validated by the sensitivity runs in DESIGN.md) and the generator's reach; unclaimed classes are counted in the evidence, never asserted."

TEXT = {
    "C01": {
        "level_text": "Differential property-based testing: rapid-generated (declarations, spec AST rendered to a spec string, argv) cases; the library's verdict (Action ran under ContinueOnError, Run's error) is compared in both directions with an independent set-based reference semantics of the spec language; 10^4-10^6 cases per run, shrunk failures become replay files. Held-on-everything-generated, not a proof; the unbounded-length clause is sampled by pumping only.",
        "design_ref": "DESIGN.md sections 3 and 5 (C01)",
        "level_note": TRUST + " F3 (greedy option group) is a recorded known finding: cases where only the greedy-group rule reproduces the library's verdict are attributed to it.",
        "technique": "property-based differential testing against a reference model (rapid), shrinking to a replay file",
    },
    "C02": {
        "level_text": "Property-based testing with a derivation verifier: on every accepted generated case the values observed by recorder value types (every Set call, in order, per container) must be exactly the bindings of some derivation of the reference semantics, and containers not given on the command line must keep their declaration-time content; 'given on the command line' is observed on the recorder itself, not through SetByUser.",
        "design_ref": "DESIGN.md sections 3.2 and 5 (C02)",
        "level_note": TRUST + " Which of several valid derivations the parser picks is deliberately not constrained.",
        "technique": "property-based testing with a reference-model derivation verifier (rapid)",
    },
    "C09": {
        "level_text": "Metamorphic property-based testing: (1) inserting -- at every point of the trailing positional block (including the very end) of generated command lines must not change acceptance or any bound value; (2) for specs 'P -- T' an arbitrary token tail (dash-prefixed tokens, further --, -h after an explicit --) is bound verbatim and in order; (3) a spec-level -- behaves like a command-line -- at that position; each run is also compared with the reference semantics.",
        "design_ref": "DESIGN.md section 5 (C09)",
        "level_note": TRUST + " The tail relations are asserted only where no derivation lets the spec-level -- fire in front of a dash-prefixed token (DESIGN.md 3.4c).",
        "technique": "metamorphic property-based testing (rapid) plus reference-model differential",
    },
    "C10": {
        "level_text": "Metamorphic property-based testing: the same item sequence spelled twice with independently drawn documented spellings and foldings must give identical acceptance and identical bound values, on accepted and rejected lines, inside arbitrary generated specs (a disagreement of the common verdict with the reference semantics is C01's claim and only counted).",
        "design_ref": "DESIGN.md section 5 (C10)",
        "level_note": TRUST + " Values satisfy the stated precondition (non-empty; a '-'-prefixed value is never written in the separate form, a '='-prefixed one never in the attached form); '-ab=v' is never generated.",
        "technique": "metamorphic property-based testing (rapid)",
    },
    "C11": {
        "level_text": "Metamorphic property-based testing: swapping one adjacent pair of occurrences of different options (any spelling, folded or two-token) must leave acceptance and all bound values unchanged (a disagreement of the common verdict with the reference semantics is C01's claim and only counted).",
        "design_ref": "DESIGN.md section 5 (C11)",
        "level_note": TRUST,
        "technique": "metamorphic property-based testing (rapid)",
    },
    "C12": {
        "level_text": "Metamorphic property-based testing over configurations: each generated (program, argv) is run with no environment value and with every subset of the options backed by a set, valid variable; acceptance must be monotone, option values identical (specs without --), and the verdict under each subset must equal the reference semantics (which includes: a required absent env-backed option is satisfied; repeated occurrences are not rejected).",
        "design_ref": "DESIGN.md section 5 (C12)",
        "level_note": TRUST + " Positional bindings are not compared across subsets (an ambiguous spec may legitimately pick another derivation). Token shapes whose reading the reference semantics leaves open ('-ab=v', '-f-x') are checked with the metamorphic clauses only. F11 (value of o in '-<flags>o=v' read as 'v' or '=v') is a recorded known finding identified by its exact case class; F10 was repaired.",
        "technique": "metamorphic property-based testing over environment configurations (rapid) plus reference-model differential",
    },
    "C08": {
        "level_text": "Bounded-exhaustive plus random differential testing of the spec compiler against an independent recogniser: all strings up to length 6 (quick) / 7 (thorough) over a 19-symbol character-class alphabet under one declared/undeclared naming and up to length 5 / 6 under two further namings, and 10^5-10^6 rapid-generated longer strings (grammar-derived, undeclared names, edits, repository corpus); verdict, token tiling (text, position, type) and error-position range are compared, and the public surface (Run panics with the positioned error before any Action or interceptor) is checked on a sample.",
        "design_ref": "DESIGN.md section 5 (C08)",
        "level_note": TRUST + " Exhaustive only up to the stated length per character class; beyond it sampled.",
        "technique": "bounded exhaustive enumeration + property-based differential testing against an independent recogniser (rapid)",
    },
    "C03": {
        "level_text": "Robustness property-based testing / fuzzing: hostile and grammar-derived spec strings x hostile and pumped argument vectors x every subset of env-backed options run through the public API in an isolated, journaled, stack-capped, deadline-watched worker; the outcome must be exactly one documented kind (positioned spec error, acceptance, usage error, help) and the worker must stay alive and answer.",
        "design_ref": "DESIGN.md sections 2.4 and 5 (C03)",
        "level_note": TRUST + " Absence of hangs is judged by a deadline three to four orders of magnitude above the normal cost and confirmed in fresh processes; a non-reproducible death is reported as inconclusive (exit 2), never as a violation.",
        "technique": "property-based robustness testing (rapid) with process-level crash/hang detection and journal replay; native go fuzzing in the thorough tier",
    },
    "C05": {
        "level_text": "Complete fault enumeration: for every path depth d <= 4 (quick) / 5 (thorough) every combination of {absent, returns, panics, calls Exit} over the 2d+3 hooks is executed against the real library and compared with a reference model of the statement (hook order and multiplicity recorded by the hooks themselves, the exit stub's call recorded in the same log, panic value identity); random plans to depth 8 with sibling/descendant commands extend it beyond the bound.",
        "design_ref": "DESIGN.md section 5 (C05)",
        "level_note": TRUST + " Exhaustive up to the stated depth only; the exit function is a non-returning stub installed through the verif hook.",
        "technique": "exhaustive fault-plan enumeration against a reference model, plus rapid-generated deeper plans",
    },
    "C04": {
        "level_text": "Model-based property-based testing on generated command trees: the argument vector is split at alias tokens, each level is judged by the reference semantics on its own tokens; the recorded hook log must show exactly the addressed command's Action once (with the Before/After frame) and each level's recorder bindings must be a derivation of that level's own tokens, or else an error and an empty log.",
        "design_ref": "DESIGN.md section 5 (C04)",
        "level_note": TRUST + " Cases decided by the recorded greedy-group finding (F3) at some level are run and must follow either the greedy-group verdict or the ideal one at that level; everything else is demanded unchanged.",
        "technique": "model-based property-based testing over generated command trees (rapid)",
    },
    "C07": {
        "level_text": "Model-based property-based testing over (command tree, error policy, rejection kind): the model names the rejecting level; the check observes the hook log, the captured error stream, Run's return value, the exit stub and the recovered panic, and reads the error stream separately from the output stream (error text and usage are looked for in the error stream only).",
        "design_ref": "DESIGN.md section 5 (C07)",
        "level_note": TRUST + " Conversion failures are produced by recorder value types that fail on a reserved token (same code path as the built-in types, which C13 covers).",
        "technique": "model-based property-based testing over trees x policies (rapid); the error text expected under ExitOnError is taken from the same invocation under ContinueOnError",
    },
    "C14": {
        "level_text": "Model-based property-based testing: a help token at every kind of position (any level, before/after invalid tokens, behind '--') and version requests, under the three policies; observes which command's usage and long description are printed, the hook log, the exit stub and Run's return; on applications whose sub commands declare no parameters also as a second request on the same application object.",
        "design_ref": "DESIGN.md section 5 (C14)",
        "level_note": TRUST + " The shape the property itself excludes (help below an ancestor whose own arguments contain '--') is counted, not asserted.",
        "technique": "model-based property-based testing over trees x policies x help-token positions (rapid)",
    },
    "C06": {
        "level_text": "Model-based property-based testing of the precedence rule over all seven built-in types, option and argument, default x environment list (unset/empty/valid/invalid) x 0-3 command-line values in every spelling; the model is the statement itself with strconv as validity judge; values are read inside the Action.",
        "design_ref": "DESIGN.md section 5 (C06)",
        "level_note": TRUST + " F9 is a recorded known finding identified by its exact case class.",
        "technique": "model-based property-based testing (rapid) with strconv as oracle",
    },
    "C13": {
        "level_text": "Differential property-based testing against strconv: arbitrary tokens (numeric edge literals, generated numeric shapes, arbitrary strings) through every built-in type, option/argument and command-line/environment route; acceptance and bound value (floats bit-exact) must equal strconv's; an unparsable command-line token must be a usage error with no Action.",
        "design_ref": "DESIGN.md section 5 (C13)",
        "level_note": TRUST,
        "technique": "differential property-based testing against strconv (rapid); native go fuzz target in the thorough tier",
    },
    "C15": {
        "level_text": "Model-based property-based testing: SetByUser of every container must be true exactly when the generated command line supplied a value for it, across all built-in types, options and arguments, with environment values and defaults present or absent; only the flags are asserted here (values are C06's and C13's).",
        "design_ref": "DESIGN.md section 5 (C15)",
        "level_note": TRUST,
        "technique": "model-based property-based testing (rapid)",
    },
    "C16": {
        "level_text": "Differential property-based testing between two real applications built from the same generated declarations (Spec empty versus the explicit spec assembled from the statement): acceptance, bound values and the usage line must coincide for every generated argv, with the command under test as root command or as a sub command.",
        "design_ref": "DESIGN.md section 5 (C16)",
        "level_note": TRUST,
        "technique": "differential property-based testing, implicit versus explicit spec (rapid)",
    },
    "C17": {
        "level_text": "Property-based testing of the help text's information content: generated declaration sets over a distinctive vocabulary; the oracle checks the usage line, the description, ordered anchors with per-row content (description, $ENV names, default unless hidden/empty) and accounts for every vocabulary-shaped word of the output, for long and short help at depth 0-2.",
        "design_ref": "DESIGN.md section 5 (C17)",
        "level_note": TRUST + " Layout and boilerplate are not compared; whether a numeric zero default is displayed is left unasserted.",
        "technique": "property-based testing with a content oracle over generated declarations (rapid)",
    },
    "C18": {
        "level_text": "Model-based property-based testing over declaration sequences: a name-table model predicts the exact declaration at which the library must panic (duplicate option name in any alias position, duplicate or ill-formed argument name); surviving applications are probed name by name to show that every listed name addresses exactly its own variable, short for one-letter names and long otherwise.",
        "design_ref": "DESIGN.md section 5 (C18)",
        "level_note": TRUST + " Argument names are blank-free strings as the property states.",
        "technique": "model-based property-based testing over declaration sequences (rapid)",
    },
    "C19": {
        "level_text": "Property-based protocol testing with instrumented value types: the recorded Set/Clear call log of custom types (all eight capability combinations, scripted failures, environment lists) must satisfy the documented protocol at declaration and at parse time, with the token lists checked against the reference semantics' derivations.",
        "design_ref": "DESIGN.md section 5 (C19)",
        "level_note": TRUST,
        "technique": "property-based testing of a call-log invariant with instrumented value types (rapid)",
    },
    "C20": {
        "level_text": "Stress-style property-based testing under the race detector: generated batches of independent applications are built and run sequentially (twice, in two orders) and concurrently (one goroutine each, several rounds, GOMAXPROCS 2 and 16); per-application outcome records must be identical in all executions and the race detector must stay silent. Interleavings are sampled by the Go scheduler, not enumerated - the weakest level among the checks, and stated as such.",
        "design_ref": "DESIGN.md section 5 (C20)",
        "level_note": TRUST + " Schedules are not controlled; a data race or cross-talk that needs a rare interleaving can be missed. The race detector only sees executed accesses.",
        "technique": "property-based generation of application batches, sequential/concurrent outcome comparison under go's race detector (rapid)",
    },
}
